// Contracts for `Exts` and `Dir` (src/lib.rs). All 256 values x both directions x all bases:
// loop-free (or 4-iteration) harnesses over a fully symbolic `u8` are complete proofs.

use crate::verif::src::Src;
use crate::{Dir, Exts};

/// Spec: is base `b` (0..4) present on side `right` of the raw extension byte?
pub fn has(v: u8, right: bool, b: u8) -> bool {
    let bit = if right { 4 + b } else { b };
    (v >> bit) & 1 == 1
}

pub fn is_right(d: Dir) -> bool {
    match d {
        Dir::Left => false,
        Dir::Right => true,
    }
}

pub fn any_dir<S: Src>(s: &mut S) -> Dir {
    if s.bool() {
        Dir::Right
    } else {
        Dir::Left
    }
}

pub fn any_exts<S: Src>(s: &mut S) -> Exts {
    Exts { val: s.u8() }
}

/// Spec: number of bases on a side.
pub fn count(v: u8, right: bool) -> u8 {
    let mut n = 0u8;
    let mut b = 0u8;
    while b < 4 {
        if has(v, right, b) {
            n += 1;
        }
        b += 1;
    }
    n
}

/// Spec of reverse complement of an extension byte, given positionally (sides swapped, bases
/// complemented) - checked for a symbolic (side, base).
pub fn rc_post(e: u8, r: u8, right: bool, b: u8) -> bool {
    has(r, right, b) == has(e, !right, 3 - b)
}

#[cfg(kani)]
impl kani::Arbitrary for Exts {
    fn any() -> Self {
        Exts { val: kani::any() }
    }
}

#[cfg(kani)]
impl kani::Arbitrary for Dir {
    fn any() -> Self {
        if kani::any() {
            Dir::Left
        } else {
            Dir::Right
        }
    }
}

pub fn c_rc<S: Src>(s: &mut S) {
    let e = any_exts(s);
    let right = s.bool();
    let b = s.u8();
    s.assume(b < 4);
    s.cover(e.val == 0x81);
    let r = e.rc();
    chk!(s, rc_post(e.val, r.val, right, b), "Exts::rc: sides swapped and bases complemented");
    chk!(s, r.rc().val == e.val, "Exts::rc is an involution");
}

pub fn c_complement<S: Src>(s: &mut S) {
    let e = any_exts(s);
    let right = s.bool();
    let b = s.u8();
    s.assume(b < 4);
    s.cover(e.val == 0x81);
    let r = e.complement();
    chk!(s, 
        has(r.val, right, b) == has(e.val, right, 3 - b),
        "Exts::complement: bases complemented on the same side",
    );
    chk!(s, r.complement().val == e.val, "Exts::complement is an involution");
}

pub fn c_reverse<S: Src>(s: &mut S) {
    let e = any_exts(s);
    let right = s.bool();
    let b = s.u8();
    s.assume(b < 4);
    s.cover(e.val == 0x81);
    let r = e.reverse();
    chk!(s, 
        has(r.val, right, b) == has(e.val, !right, b),
        "Exts::reverse: sides swapped, bases kept",
    );
    chk!(s, r.reverse().val == e.val, "Exts::reverse is an involution");
}

pub fn c_set<S: Src>(s: &mut S) {
    let e = any_exts(s);
    let d = any_dir(s);
    let pos = s.u8();
    s.assume(pos < 4);
    let right = s.bool();
    let b = s.u8();
    s.assume(b < 4);
    s.cover(true);
    let r = e.set(d, pos);
    let expect = has(e.val, right, b) || (right == is_right(d) && b == pos);
    chk!(s, has(r.val, right, b) == expect, "Exts::set adds exactly the requested extension");
}

pub fn c_has_ext<S: Src>(s: &mut S) {
    let e = any_exts(s);
    let d = any_dir(s);
    let b = s.u8();
    s.assume(b < 4);
    s.cover(true);
    chk!(s, e.has_ext(d, b) == has(e.val, is_right(d), b), "Exts::has_ext reads the addressed bit");
}

pub fn c_num_ext_dir<S: Src>(s: &mut S) {
    let e = any_exts(s);
    let d = any_dir(s);
    s.cover(e.val == 0xff);
    chk!(s, e.num_ext_dir(d) == count(e.val, is_right(d)), "Exts::num_ext_dir counts the side");
    chk!(s, e.num_exts_l() == count(e.val, false), "Exts::num_exts_l");
    chk!(s, e.num_exts_r() == count(e.val, true), "Exts::num_exts_r");
}

pub fn c_get_unique_extension<S: Src>(s: &mut S) {
    let e = any_exts(s);
    let d = any_dir(s);
    let b = s.u8();
    s.assume(b < 4);
    s.cover(true);
    let r = e.get_unique_extension(d);
    let right = is_right(d);
    match r {
        Some(x) => {
            chk!(s, x < 4, "get_unique_extension returns a base");
            chk!(s, count(e.val, right) == 1, "get_unique_extension: Some only when exactly one");
            chk!(s, has(e.val, right, x), "get_unique_extension returns the present base");
        }
        None => {
            chk!(s, count(e.val, right) != 1, "get_unique_extension: None only when not exactly one");
        }
    }
}

pub fn c_single_dir<S: Src>(s: &mut S) {
    let e = any_exts(s);
    let d = any_dir(s);
    let b = s.u8();
    s.assume(b < 4);
    s.cover(true);
    let r = e.single_dir(d);
    chk!(s, 
        has(r.val, false, b) == has(e.val, is_right(d), b),
        "Exts::single_dir moves the chosen side to the left slot",
    );
    chk!(s, r.val >> 4 == 0, "Exts::single_dir leaves the right slot empty");
}

pub fn c_merge<S: Src>(s: &mut S) {
    let l = any_exts(s);
    let r = any_exts(s);
    let b = s.u8();
    s.assume(b < 4);
    s.cover(true);
    let m = Exts::merge(l, r);
    chk!(s, has(m.val, false, b) == has(l.val, false, b), "Exts::merge takes the left side of the first");
    chk!(s, has(m.val, true, b) == has(r.val, true, b), "Exts::merge takes the right side of the second");
}

pub fn c_from_single_dirs<S: Src>(s: &mut S) {
    let l = any_exts(s);
    let r = any_exts(s);
    let b = s.u8();
    s.assume(b < 4);
    s.cover(true);
    let m = Exts::from_single_dirs(l, r);
    chk!(s, has(m.val, false, b) == has(l.val, false, b), "from_single_dirs: left from first");
    chk!(s, has(m.val, true, b) == has(r.val, false, b), "from_single_dirs: right from second's single-dir slot");
}

pub fn c_add<S: Src>(s: &mut S) {
    let x = any_exts(s);
    let y = any_exts(s);
    let right = s.bool();
    let b = s.u8();
    s.assume(b < 4);
    s.cover(true);
    let m = x.add(y);
    chk!(s, 
        has(m.val, right, b) == (has(x.val, right, b) || has(y.val, right, b)),
        "Exts::add is the union",
    );
}

pub fn c_mk<S: Src>(s: &mut S) {
    let lb = s.u8();
    let rb = s.u8();
    s.assume(lb < 4 && rb < 4);
    let right = s.bool();
    let b = s.u8();
    s.assume(b < 4);
    s.cover(true);
    let l = Exts::mk_left(lb);
    let r = Exts::mk_right(rb);
    let m = Exts::mk(lb, rb);
    chk!(s, has(l.val, right, b) == (!right && b == lb), "Exts::mk_left is the singleton");
    chk!(s, has(r.val, right, b) == (right && b == rb), "Exts::mk_right is the singleton");
    chk!(s, 
        has(m.val, right, b) == if right { b == rb } else { b == lb },
        "Exts::mk has exactly the two bases",
    );
    chk!(s, Exts::empty().val == 0, "Exts::empty has no extension");
}

pub fn c_get<S: Src>(s: &mut S) {
    let e = any_exts(s);
    let d = any_dir(s);
    let b = s.u8();
    s.assume(b < 4);
    s.cover(true);
    let v = e.get(d);
    let right = is_right(d);
    chk!(s, v.len() == count(e.val, right) as usize, "Exts::get lists every base once");
    let mut found = false;
    let mut i = 0;
    while i < v.len() {
        if v[i] == b {
            found = true;
        }
        if i > 0 {
            chk!(s, v[i - 1] < v[i], "Exts::get is strictly ascending");
        }
        i += 1;
    }
    chk!(s, found == has(e.val, right, b), "Exts::get lists exactly the present bases");
}

pub fn c_dir<S: Src>(s: &mut S) {
    let d = any_dir(s);
    let f = s.bool();
    s.cover(true);
    chk!(s, is_right(d.flip()) != is_right(d), "Dir::flip");
    chk!(s, is_right(d.cond_flip(f)) == (is_right(d) != f), "Dir::cond_flip");
    let a = s.u8();
    let b = s.u8();
    chk!(s, d.pick(a, b) == if is_right(d) { b } else { a }, "Dir::pick");
}

/// from_slice_bounds on a small symbolic slice: flanking bases exactly, none at the ends.
pub fn c_from_slice_bounds<S: Src>(s: &mut S) {
    let mut buf = [0u8; 6];
    let mut i = 0;
    while i < 6 {
        buf[i] = s.u8();
        s.assume(buf[i] < 4);
        i += 1;
    }
    let n = s.usize();
    s.assume(n <= 6);
    let start = s.usize();
    let len = s.usize();
    s.assume(start <= n && len <= n - start);
    let right = s.bool();
    let b = s.u8();
    s.assume(b < 4);
    s.cover(start > 0 && start + len < n);
    s.cover(start == 0 && start + len == n);
    let e = Exts::from_slice_bounds(&buf[..n], start, len);
    let expect = if right {
        start + len < n && buf[start + len] == b
    } else {
        start > 0 && buf[start - 1] == b
    };
    chk!(s, has(e.val, right, b) == expect, "from_slice_bounds: exactly the flanking bases");
}

harness!(x_rc, c_rc);
harness!(x_complement, c_complement);
harness!(x_reverse, c_reverse);
harness!(x_set, c_set);
harness!(x_has_ext, c_has_ext);
harness!(x_num_ext_dir, c_num_ext_dir, unwind 6);
harness!(x_get_unique_extension, c_get_unique_extension, unwind 6);
harness!(x_single_dir, c_single_dir);
harness!(x_merge, c_merge);
harness!(x_from_single_dirs, c_from_single_dirs);
harness!(x_add, c_add);
harness!(x_mk, c_mk);
harness!(x_get, c_get, unwind 6);
harness!(x_dir, c_dir);
harness!(x_from_slice_bounds, c_from_slice_bounds, unwind 8);

replay_table!(
    x_rc => c_rc,
    x_complement => c_complement,
    x_reverse => c_reverse,
    x_set => c_set,
    x_has_ext => c_has_ext,
    x_num_ext_dir => c_num_ext_dir,
    x_get_unique_extension => c_get_unique_extension,
    x_single_dir => c_single_dir,
    x_merge => c_merge,
    x_from_single_dirs => c_from_single_dirs,
    x_add => c_add,
    x_mk => c_mk,
    x_get => c_get,
    x_dir => c_dir,
    x_from_slice_bounds => c_from_slice_bounds,
);
