// Contracts for the packed k-mer types of src/kmer.rs (trait impls `Mer`/`Kmer` for `IntKmer<T>` and
// `VarIntKmer<T, KS>`) and for the `Kmer` default methods of src/lib.rs, instantiated for each of
// the 19 shipped types. The storage word is fully symbolic (constrained only by `inv`), so every
// loop-free harness is a complete proof over all 4^K values; loops are bounded by K.
//
// Abstract view (spec side, never calls the code under test):
//     lane(x, i) = (storage >> 2*(K-1-i)) & 3          base i of the K-letter string
//     inv(x)     = storage bits above lane 0 are zero  (vacuous for full-width types)

use crate::kmer::*;
use crate::verif::exts::{any_dir, any_exts, is_right};
use crate::verif::src::Src;
use crate::verif::tables::spec_code;
use crate::{Dir, Exts, Kmer, Mer};
use std::cmp::Ordering;
use std::hash::{Hash, Hasher};
use std::marker::PhantomData;

pub trait KV: Kmer {
    /// K as named by the type alias (independent of the code's `k()`).
    const KK: usize;
    /// raw storage, zero-extended
    fn bits(&self) -> u128;
    /// struct literal from raw storage (truncating)
    fn from_bits(b: u128) -> Self;
    /// arbitrary storage word of the native width (no invariant assumed)
    fn any_raw<S: Src>(s: &mut S) -> Self;
}

macro_rules! kv_int {
    ($t:ty, $k:expr, $draw:ident) => {
        impl KV for IntKmer<$t> {
            const KK: usize = $k;
            fn bits(&self) -> u128 {
                self.storage as u128
            }
            fn from_bits(b: u128) -> Self {
                IntKmer { storage: b as $t }
            }
            fn any_raw<S: Src>(s: &mut S) -> Self {
                IntKmer { storage: s.$draw() }
            }
        }
    };
}

macro_rules! kv_var {
    ($t:ty, $ks:ty, $k:expr, $draw:ident) => {
        impl KV for VarIntKmer<$t, $ks> {
            const KK: usize = $k;
            fn bits(&self) -> u128 {
                self.storage as u128
            }
            fn from_bits(b: u128) -> Self {
                VarIntKmer {
                    storage: b as $t,
                    phantom: PhantomData,
                }
            }
            fn any_raw<S: Src>(s: &mut S) -> Self {
                VarIntKmer {
                    storage: s.$draw(),
                    phantom: PhantomData,
                }
            }
        }
    };
}

kv_int!(u128, 64, u128);
kv_int!(u64, 32, u64);
kv_int!(u32, 16, u32);
kv_int!(u16, 8, u16);
kv_int!(u8, 4, u8);
kv_var!(u128, K48, 48, u128);
kv_var!(u128, K40, 40, u128);
kv_var!(u64, K31, 31, u64);
kv_var!(u64, K30, 30, u64);
kv_var!(u64, K24, 24, u64);
kv_var!(u64, K20, 20, u64);
kv_var!(u32, K15, 15, u32);
kv_var!(u32, K14, 14, u32);
kv_var!(u32, K12, 12, u32);
kv_var!(u32, K10, 10, u32);
kv_var!(u16, K6, 6, u16);
kv_var!(u16, K5, 5, u16);
kv_var!(u8, K3, 3, u8);
kv_var!(u8, K2, 2, u8);

// ---------------------------------------------------------------------------------------------
// spec functions

pub fn lane<K: KV>(x: &K, i: usize) -> u8 {
    ((x.bits() >> (2 * (K::KK - 1 - i))) & 3) as u8
}

pub fn lane_bits<K: KV>(b: u128, i: usize) -> u8 {
    ((b >> (2 * (K::KK - 1 - i))) & 3) as u8
}

pub fn inv<K: KV>(x: &K) -> bool {
    K::KK == 64 || (x.bits() >> (2 * K::KK)) == 0
}

pub fn any_kmer<K: KV, S: Src>(s: &mut S) -> K {
    let x = K::any_raw(s);
    s.assume(inv(&x));
    x
}

/// storage bits of the reverse complement, built lane by lane from the definition
/// rc(s)[i] = 3 - s[K-1-i]
pub fn spec_rc_bits<K: KV>(x: &K) -> u128 {
    let mut out: u128 = 0;
    let mut i = 0;
    while i < K::KK {
        let b = 3 - lane(x, K::KK - 1 - i);
        out |= (b as u128) << (2 * (K::KK - 1 - i));
        i += 1;
    }
    out
}

/// storage bits of `extend(b, dir)`, built lane by lane from the definition
pub fn spec_extend_bits<K: KV>(x: &K, b: u8, right: bool) -> u128 {
    let mut out: u128 = 0;
    let mut i = 0;
    while i < K::KK {
        let v = if right {
            if i == K::KK - 1 { b } else { lane(x, i + 1) }
        } else if i == 0 {
            b
        } else {
            lane(x, i - 1)
        };
        out |= (v as u128) << (2 * (K::KK - 1 - i));
        i += 1;
    }
    out
}

/// lexicographic comparison of the two K-letter strings (A<C<G<T)
pub fn spec_cmp<K: KV>(a: u128, b: u128) -> Ordering {
    let mut i = 0;
    while i < K::KK {
        let x = lane_bits::<K>(a, i);
        let y = lane_bits::<K>(b, i);
        if x < y {
            return Ordering::Less;
        }
        if x > y {
            return Ordering::Greater;
        }
        i += 1;
    }
    Ordering::Equal
}

/// rank of the string: sum lane(i) * 4^(K-1-i)
pub fn spec_rank<K: KV>(x: &K, from: usize) -> u128 {
    let mut acc: u128 = 0;
    let mut i = from;
    while i < K::KK {
        acc = acc * 4 + lane(x, i) as u128;
        i += 1;
    }
    acc
}

/// A hasher that records exactly what is fed to it (up to 64 bytes) - two values "hash equal" for
/// every `Hasher` iff they feed the same byte stream.
pub struct RecHasher {
    pub buf: [u8; 64],
    pub n: usize,
}

impl RecHasher {
    pub fn new() -> Self {
        RecHasher { buf: [0; 64], n: 0 }
    }
}

impl Hasher for RecHasher {
    fn finish(&self) -> u64 {
        0
    }
    fn write(&mut self, bytes: &[u8]) {
        let mut i = 0;
        while i < bytes.len() {
            if self.n < 64 {
                self.buf[self.n] = bytes[i];
            }
            self.n += 1;
            i += 1;
        }
    }
}

// ---------------------------------------------------------------------------------------------
// contract functions (generic; instantiated per shipped type below)

pub fn c_len<K: KV, S: Src>(s: &mut S) {
    let x: K = any_kmer(s);
    s.cover(true);
    chk!(s, K::k() == K::KK, "k() is the K of the type");
    chk!(s, x.len() == K::KK, "len() == K");
    chk!(s, !x.is_empty(), "a k-mer is never empty");
}

pub fn c_get<K: KV, S: Src>(s: &mut S) {
    let x: K = any_kmer(s);
    let pos = s.usize();
    s.assume(pos < K::KK);
    s.cover(pos == K::KK - 1);
    let r = x.get(pos);
    chk!(s, r == lane(&x, pos), "get(pos) is base pos of the string");
}

pub fn c_set_mut<K: KV, S: Src>(s: &mut S) {
    let x: K = any_kmer(s);
    let pos = s.usize();
    let v = s.u8();
    let j = s.usize();
    s.assume(pos < K::KK && v < 4 && j < K::KK);
    s.cover(pos == 0 && v == 3);
    let mut y = x;
    y.set_mut(pos, v);
    let expect = if j == pos { v } else { lane(&x, j) };
    chk!(s, lane(&y, j) == expect, "set_mut writes base pos and no other base");
    chk!(s, inv(&y), "set_mut keeps unused storage bits zero");
}

pub fn c_set_slice_mut<K: KV, S: Src>(s: &mut S) {
    let x: K = any_kmer(s);
    let pos = s.usize();
    let n = s.usize();
    let val = s.u64();
    let j = s.usize();
    s.assume(n >= 1 && n <= 32 && pos <= K::KK && n <= K::KK - pos && j < K::KK);
    s.cover(pos == 0 && n == if K::KK < 32 { K::KK } else { 32 });
    s.cover(pos + n == K::KK && pos > 0);
    let mut y = x;
    y.set_slice_mut(pos, n, val);
    let expect = if j >= pos && j < pos + n {
        ((val >> (62 - 2 * (j - pos))) & 3) as u8
    } else {
        lane(&x, j)
    };
    chk!(s, 
        lane(&y, j) == expect,
        "set_slice_mut writes bases pos..pos+n from the top lanes of value and no other base",
    );
    chk!(s, inv(&y), "set_slice_mut keeps unused storage bits zero");
}

pub fn c_rc<K: KV, S: Src>(s: &mut S) {
    let x: K = any_kmer(s);
    let j = s.usize();
    s.assume(j < K::KK);
    s.cover(j == 0);
    let r = x.rc();
    chk!(s, lane(&r, j) == 3 - lane(&x, K::KK - 1 - j), "rc: position i <-> K-1-i, base b -> 3-b");
    chk!(s, inv(&r), "rc keeps unused storage bits zero");
    chk!(s, r.rc().bits() == x.bits(), "rc is an involution");
}

pub fn c_extend_left<K: KV, S: Src>(s: &mut S) {
    let x: K = any_kmer(s);
    let v = s.u8();
    let j = s.usize();
    s.assume(v < 4 && j < K::KK);
    s.cover(j == 0);
    s.cover(j == K::KK - 1);
    let y = x.extend_left(v);
    let expect = if j == 0 { v } else { lane(&x, j - 1) };
    chk!(s, lane(&y, j) == expect, "extend_left: [v] + s[..K-1]");
    chk!(s, inv(&y), "extend_left keeps unused storage bits zero");
    let z = x.extend(v, Dir::Left);
    chk!(s, z.bits() == y.bits(), "extend(v, Left) == extend_left(v)");
}

pub fn c_extend_right<K: KV, S: Src>(s: &mut S) {
    let x: K = any_kmer(s);
    let v = s.u8();
    let j = s.usize();
    s.assume(v < 4 && j < K::KK);
    s.cover(j == 0);
    s.cover(j == K::KK - 1);
    let y = x.extend_right(v);
    let expect = if j == K::KK - 1 { v } else { lane(&x, j + 1) };
    chk!(s, lane(&y, j) == expect, "extend_right: s[1..] + [v]");
    chk!(s, inv(&y), "extend_right keeps unused storage bits zero");
    let z = x.extend(v, Dir::Right);
    chk!(s, z.bits() == y.bits(), "extend(v, Right) == extend_right(v)");
}

pub fn c_empty<K: KV, S: Src>(s: &mut S) {
    s.cover(true);
    let e = K::empty();
    chk!(s, e.bits() == 0, "empty() is all A");
}

/// draws K+1 bytes into a fixed buffer; the slice handed over has length K or K+1
fn any_buf<K: KV, S: Src>(s: &mut S, bases: bool) -> ([u8; 66], usize) {
    let mut buf = [0u8; 66];
    let mut i = 0;
    while i < K::KK + 1 {
        buf[i] = s.u8();
        if bases {
            s.assume(buf[i] < 4);
        }
        i += 1;
    }
    let n = if s.bool() { K::KK } else { K::KK + 1 };
    (buf, n)
}

pub fn c_from_bytes<K: KV, S: Src>(s: &mut S) {
    let (buf, n) = any_buf::<K, S>(s, true);
    let j = s.usize();
    s.assume(j < K::KK);
    s.cover(n == K::KK + 1);
    let r = K::from_bytes(&buf[..n]);
    chk!(s, lane(&r, j) == buf[j], "from_bytes: base j is byte j");
    chk!(s, inv(&r), "from_bytes keeps unused storage bits zero");
}

pub fn c_from_ascii<K: KV, S: Src>(s: &mut S) {
    let (buf, n) = any_buf::<K, S>(s, false);
    let j = s.usize();
    s.assume(j < K::KK);
    s.cover(n == K::KK);
    let r = K::from_ascii(&buf[..n]);
    let expect = match spec_code(buf[j]) {
        Some(c) => c,
        None => 0,
    };
    chk!(s, lane(&r, j) == expect, "from_ascii: base j is the code of letter j (non-ACGT -> A)");
    chk!(s, inv(&r), "from_ascii keeps unused storage bits zero");
}

pub fn c_to_u64<K: KV, S: Src>(s: &mut S) {
    // K <= 32 only (documented: panics otherwise)
    let x: K = any_kmer(s);
    s.cover(true);
    let r = x.to_u64();
    chk!(s, r as u128 == spec_rank(&x, 0), "to_u64 is the lexicographic rank of the string");
    let j = s.usize();
    s.assume(j < K::KK);
    // the packed word spells the bases in its low K lanes (seam clause used by the Verus hamming_dist proof at K = 32)
    chk!(s, ((r >> (2 * (K::KK - 1 - j))) & 3) as u8 == lane(&x, j), "to_u64: lane j of the returned word is base j");
}

pub fn c_from_u64<K: KV, S: Src>(s: &mut S) {
    let v = s.u64();
    if K::KK < 32 {
        s.assume(v >> (2 * K::KK) == 0);
    }
    let j = s.usize();
    s.assume(j < K::KK);
    s.cover(v != 0);
    let r = K::from_u64(v);
    chk!(s, inv(&r), "from_u64 keeps unused storage bits zero");
    if K::KK <= 32 {
        chk!(s, spec_rank(&r, 0) == v as u128, "from_u64(v) has rank v");
    } else {
        chk!(s, spec_rank(&r, K::KK - 32) == v as u128, "from_u64(v): low 32 bases have rank v");
        chk!(s, j >= K::KK - 32 || lane(&r, j) == 0, "from_u64(v): leading bases are A when K > 32");
    }
}

pub fn c_hamming<K: KV, S: Src>(s: &mut S) {
    let x: K = any_kmer(s);
    let y: K = any_kmer(s);
    s.cover(x.bits() != y.bits());
    let mut n = 0u32;
    let mut i = 0;
    while i < K::KK {
        if lane(&x, i) != lane(&y, i) {
            n += 1;
        }
        i += 1;
    }
    chk!(s, x.hamming_dist(y) == n, "hamming_dist counts differing positions");
}

pub fn c_at_gc<K: KV, S: Src>(s: &mut S) {
    let x: K = any_kmer(s);
    s.cover(x.bits() != 0);
    let mut at = 0u32;
    let mut gc = 0u32;
    let mut i = 0;
    while i < K::KK {
        let b = lane(&x, i);
        if b == 0 || b == 3 {
            at += 1;
        } else {
            gc += 1;
        }
        i += 1;
    }
    chk!(s, x.at_count() == at, "at_count counts A/T positions");
    chk!(s, x.gc_count() == gc, "gc_count counts G/C positions");
}

pub fn c_eq_ord<K: KV, S: Src>(s: &mut S) {
    let x: K = any_kmer(s);
    let y: K = any_kmer(s);
    s.cover(x.bits() != y.bits());
    s.cover(x.bits() == y.bits());
    let sc = spec_cmp::<K>(x.bits(), y.bits());
    chk!(s, (x == y) == (sc == Ordering::Equal), "== holds exactly when the strings are equal");
    chk!(s, x.cmp(&y) == sc, "cmp is lexicographic A<C<G<T order of the strings");
    chk!(s, x.partial_cmp(&y) == Some(sc), "partial_cmp agrees with cmp");
    chk!(s, (x < y) == (sc == Ordering::Less), "< is lexicographic");
}

pub fn c_hash<K: KV, S: Src>(s: &mut S) {
    let x: K = any_kmer(s);
    let y: K = any_kmer(s);
    s.cover(x.bits() == y.bits());
    let mut hx = RecHasher::new();
    let mut hy = RecHasher::new();
    x.hash(&mut hx);
    y.hash(&mut hy);
    chk!(s, hx.n <= 64, "hash stream recorded completely");
    if spec_cmp::<K>(x.bits(), y.bits()) == Ordering::Equal {
        chk!(s, hx.n == hy.n && hx.buf == hy.buf, "equal strings feed the same bytes to any Hasher");
    }
}

pub fn c_min_rc<K: KV, S: Src>(s: &mut S) {
    let x: K = any_kmer(s);
    s.cover(true);
    let rcb = spec_rc_bits(&x);
    let lt = spec_cmp::<K>(x.bits(), rcb) == Ordering::Less;
    let want = if lt { x.bits() } else { rcb };
    let m = x.min_rc();
    chk!(s, m.bits() == want, "min_rc is the smaller of the k-mer and its reverse complement");
    let y = K::from_bits(rcb);
    chk!(s, y.min_rc().bits() == want, "min_rc is the same for a k-mer and its reverse complement");
    let (m2, flip) = x.min_rc_flip();
    chk!(s, m2.bits() == want, "min_rc_flip returns the canonical k-mer");
    chk!(s, 
        if flip { m2.bits() == rcb } else { m2.bits() == x.bits() },
        "min_rc_flip: flag says whether the reverse complement was returned",
    );
    chk!(s, 
        x.is_palindrome() == (x.bits() == rcb),
        "is_palindrome exactly when the k-mer equals its reverse complement",
    );
}

/// C06 per-observation canonicalisation lemma on the real `min_rc_flip` + `Exts::rc`:
/// an observation (k, e) and its reverse-complement observation (rc k, rc e) contribute the same
/// (key, extensions) pair (keys always; extensions unless k is its own reverse complement).
pub fn c_canon<K: KV, S: Src>(s: &mut S) {
    let x: K = any_kmer(s);
    let e = any_exts(s);
    s.cover(true);
    let rcb = spec_rc_bits(&x);
    let y = K::from_bits(rcb);
    let e_rc = e.rc();

    let (m1, f1) = x.min_rc_flip();
    let e1 = if f1 { e.rc() } else { e };
    let (m2, f2) = y.min_rc_flip();
    let e2 = if f2 { e_rc.rc() } else { e_rc };

    chk!(s, m1.bits() == m2.bits(), "canonical key is strand independent");
    let lt = spec_cmp::<K>(x.bits(), rcb);
    chk!(s, 
        m1.bits() == if lt == Ordering::Less { x.bits() } else { rcb },
        "canonical key is the lexicographic minimum of k and rc k",
    );
    if x.bits() != rcb {
        chk!(s, e1.val == e2.val, "canonicalised extensions are strand independent");
    }
}

/// BOUNDED (input length exactly K+3, i.e. 4 k-mers): kmers_from_bytes / kmers_from_ascii return every window in order.
pub fn c_kmers_from<K: KV, S: Src>(s: &mut S) {
    let mut buf = [0u8; 67];
    let mut i = 0;
    while i < K::KK + 3 {
        buf[i] = s.u8();
        s.assume(buf[i] < 4);
        i += 1;
    }
    let w = s.usize();
    let j = s.usize();
    s.assume(w < 4 && j < K::KK);
    s.cover(w == 3);
    let v = K::kmers_from_bytes(&buf[..K::KK + 3]);
    chk!(s, v.len() == 4, "kmers_from_bytes yields n-K+1 k-mers");
    chk!(s, lane(&v[w], j) == buf[w + j], "kmers_from_bytes: k-mer w is the window starting at w");
    chk!(s, inv(&v[w]), "kmers_from_bytes keeps unused storage bits zero");
    let short = K::kmers_from_bytes(&buf[..K::KK - 1]);
    chk!(s, short.len() == 0, "kmers_from_bytes on a sequence shorter than K yields nothing");
    // ASCII variant on the letters of the same bases
    let mut abuf = [0u8; 67];
    let mut t = 0;
    while t < K::KK + 3 {
        abuf[t] = crate::verif::tables::spec_letter(buf[t]) | (if s.bool() { 0x20 } else { 0 });
        t += 1;
    }
    let va = K::kmers_from_ascii(&abuf[..K::KK + 3]);
    chk!(s, va.len() == 4, "kmers_from_ascii yields n-K+1 k-mers");
    chk!(s, lane(&va[w], j) == buf[w + j], "kmers_from_ascii: k-mer w is the window starting at w (either case)");
}

macro_rules! kmer_suite {
    ($m:ident, $ty:ty, unwind $u:expr, small $small:tt) => {
        pub mod $m {
            use super::*;
            type T = $ty;
            harness!(k_len, c_len::<T, _>);
            harness!(k_get, c_get::<T, _>);
            harness!(k_set_mut, c_set_mut::<T, _>);
            harness!(k_set_slice_mut, c_set_slice_mut::<T, _>);
            harness!(k_rc, c_rc::<T, _>);
            harness!(k_extend_left, c_extend_left::<T, _>);
            harness!(k_extend_right, c_extend_right::<T, _>);
            harness!(k_empty, c_empty::<T, _>);
            harness!(k_from_bytes, c_from_bytes::<T, _>, unwind $u);
            harness!(k_from_ascii, c_from_ascii::<T, _>, unwind $u);
            harness!(k_from_u64, c_from_u64::<T, _>, unwind $u);
            harness!(k_hamming, c_hamming::<T, _>, unwind $u);
            harness!(k_at_gc, c_at_gc::<T, _>, unwind $u);
            harness!(k_eq_ord, c_eq_ord::<T, _>, unwind $u);
            harness!(k_hash, c_hash::<T, _>, unwind 67);
            harness!(k_min_rc, c_min_rc::<T, _>, unwind $u);
            harness!(k_canon, c_canon::<T, _>, unwind $u);
            harness!(k_kmers_from, c_kmers_from::<T, _>, unwind 70);
            kmer_suite!(@small $small $u);
            pub fn replay(name: &str, s: &mut $crate::verif::src::RSrc) -> bool {
                match name {
                    "k_len" => c_len::<T, _>(s),
                    "k_get" => c_get::<T, _>(s),
                    "k_set_mut" => c_set_mut::<T, _>(s),
                    "k_set_slice_mut" => c_set_slice_mut::<T, _>(s),
                    "k_rc" => c_rc::<T, _>(s),
                    "k_extend_left" => c_extend_left::<T, _>(s),
                    "k_extend_right" => c_extend_right::<T, _>(s),
                    "k_empty" => c_empty::<T, _>(s),
                    "k_from_bytes" => c_from_bytes::<T, _>(s),
                    "k_from_ascii" => c_from_ascii::<T, _>(s),
                    "k_from_u64" => c_from_u64::<T, _>(s),
                    "k_hamming" => c_hamming::<T, _>(s),
                    "k_at_gc" => c_at_gc::<T, _>(s),
                    "k_eq_ord" => c_eq_ord::<T, _>(s),
                    "k_hash" => c_hash::<T, _>(s),
                    "k_min_rc" => c_min_rc::<T, _>(s),
                    "k_canon" => c_canon::<T, _>(s),
                    "k_kmers_from" => c_kmers_from::<T, _>(s),
                    "k_to_u64" => {
                        if T::KK <= 32 {
                            c_to_u64::<T, _>(s)
                        } else {
                            return false;
                        }
                    }
                    _ => return false,
                }
                true
            }
        }
    };
    (@small yes $u:expr) => {
        harness!(k_to_u64, c_to_u64::<T, _>, unwind $u);
    };
    (@small no $u:expr) => {};
}

kmer_suite!(kmer64, Kmer64, unwind 67, small no);
kmer_suite!(kmer48, Kmer48, unwind 51, small no);
kmer_suite!(kmer40, Kmer40, unwind 43, small no);
kmer_suite!(kmer32, Kmer32, unwind 35, small yes);
kmer_suite!(kmer31, VarIntKmer<u64, K31>, unwind 34, small yes);
kmer_suite!(kmer30, Kmer30, unwind 33, small yes);
kmer_suite!(kmer24, Kmer24, unwind 27, small yes);
kmer_suite!(kmer20, Kmer20, unwind 23, small yes);
kmer_suite!(kmer16, Kmer16, unwind 19, small yes);
kmer_suite!(kmer15, Kmer15, unwind 18, small yes);
kmer_suite!(kmer14, Kmer14, unwind 17, small yes);
kmer_suite!(kmer12, Kmer12, unwind 15, small yes);
kmer_suite!(kmer10, Kmer10, unwind 13, small yes);
kmer_suite!(kmer8, Kmer8, unwind 11, small yes);
kmer_suite!(kmer6, Kmer6, unwind 9, small yes);
kmer_suite!(kmer5, Kmer5, unwind 8, small yes);
kmer_suite!(kmer4, Kmer4, unwind 7, small yes);
kmer_suite!(kmer3, Kmer3, unwind 6, small yes);
kmer_suite!(kmer2, Kmer2, unwind 5, small yes);

pub fn replay(path: &str, s: &mut crate::verif::src::RSrc) -> bool {
    let (m, name) = match path.find("::") {
        Some(i) => (&path[..i], &path[i + 2..]),
        None => return false,
    };
    match m {
        "kmer64" => kmer64::replay(name, s),
        "kmer48" => kmer48::replay(name, s),
        "kmer40" => kmer40::replay(name, s),
        "kmer32" => kmer32::replay(name, s),
        "kmer31" => kmer31::replay(name, s),
        "kmer30" => kmer30::replay(name, s),
        "kmer24" => kmer24::replay(name, s),
        "kmer20" => kmer20::replay(name, s),
        "kmer16" => kmer16::replay(name, s),
        "kmer15" => kmer15::replay(name, s),
        "kmer14" => kmer14::replay(name, s),
        "kmer12" => kmer12::replay(name, s),
        "kmer10" => kmer10::replay(name, s),
        "kmer8" => kmer8::replay(name, s),
        "kmer6" => kmer6::replay(name, s),
        "kmer5" => kmer5::replay(name, s),
        "kmer4" => kmer4::replay(name, s),
        "kmer3" => kmer3::replay(name, s),
        "kmer2" => kmer2::replay(name, s),
        _ => false,
    }
}
