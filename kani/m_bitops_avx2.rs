// Contracts for the AVX2 kernels of src/bitops_avx2.rs: the vector path equals the scalar path on
// every 32-byte block. All 256^32 blocks: the 32 input bytes are symbolic, the real kernel code is
// executed as compiled; only `_mm256_shuffle_epi8` (llvm.x86.avx2.pshuf.b) and `_mm256_testc_si256`
// (simd_reduce_or) - which Kani 0.68 cannot translate - are replaced by the software models below
// (Intel SDM semantics; validated natively against the CPU by `validate_models`, not proved).

use super::*;
use crate::verif::src::Src;
use crate::verif::tables::spec_code;
use crate::verif::chk;

pub fn to_bytes(v: __m256i) -> [u8; 32] {
    unsafe { std::mem::transmute::<__m256i, [u8; 32]>(v) }
}

pub fn from_bytes(b: [u8; 32]) -> __m256i {
    unsafe { std::mem::transmute::<[u8; 32], __m256i>(b) }
}

/// VPSHUFB ymm: within each 128-bit half, r[i] = 0 if b[i] bit 7 set, else a[half + (b[i] & 15)].
pub fn model_shuffle_epi8(a: __m256i, b: __m256i) -> __m256i {
    let a = to_bytes(a);
    let b = to_bytes(b);
    let mut r = [0u8; 32];
    let mut i = 0;
    while i < 32 {
        if b[i] & 0x80 == 0 {
            r[i] = a[(i & 16) | (b[i] & 0x0f) as usize];
        }
        i += 1;
    }
    from_bytes(r)
}

/// VPTEST CF: 1 iff (!a & b) == 0 over all 256 bits.
pub fn model_testc_si256(a: __m256i, b: __m256i) -> i32 {
    let a = to_bytes(a);
    let b = to_bytes(b);
    let mut all_zero = true;
    let mut i = 0;
    while i < 32 {
        if (!a[i]) & b[i] != 0 {
            all_zero = false;
        }
        i += 1;
    }
    if all_zero {
        1
    } else {
        0
    }
}

/// Contract of the vector path on one block, against the scalar table spec.
pub fn c_block<S: Src>(s: &mut S) {
    let mut bytes = [0u8; 32];
    let mut i = 0;
    while i < 32 {
        bytes[i] = s.u8();
        i += 1;
    }
    let lane = s.usize();
    s.assume(lane < 32);
    s.cover(bytes[0] == b't' && bytes[31] == 0xff);
    let (conv, valid) = unsafe { convert_bases(&bytes) };
    let packed = unsafe { pack_32_bases(conv) };
    let expect = match spec_code(bytes[lane]) {
        Some(c) => c,
        None => 0,
    };
    chk!(
        s,
        ((packed >> (62 - 2 * lane)) & 3) as u8 == expect,
        "vector path: lane i of the packed word is base_to_bits(byte i) (non-ACGT -> A)"
    );
    chk!(s, to_bytes(conv)[lane] == expect, "convert_bases: byte i is the 2-bit code");
    let mut all_valid = true;
    let mut j = 0;
    while j < 32 {
        if spec_code(bytes[j]).is_none() {
            all_valid = false;
        }
        j += 1;
    }
    chk!(s, valid == all_valid, "convert_bases: valid flag iff every byte is ACGT (either case)");
}

#[cfg(kani)]
#[kani::proof]
#[kani::unwind(34)]
#[kani::stub(std::arch::x86_64::_mm256_shuffle_epi8, model_shuffle_epi8)]
#[kani::stub(std::arch::x86_64::_mm256_testc_si256, model_testc_si256)]
pub fn a_block() {
    c_block(&mut crate::verif::src::KSrc)
}

pub fn replay(name: &str, s: &mut crate::verif::src::RSrc) -> bool {
    if name == "a_block" {
        if is_x86_feature_detected!("avx2") {
            c_block(s);
        }
        return true;
    }
    false
}

/// Native differential validation of the two intrinsic models against the CPU (an assumption check,
/// not a proof). Returns (cases_run, mismatches); cases_run == 0 when the CPU lacks AVX2.
pub fn validate_models(n: usize) -> (usize, usize) {
    if !is_x86_feature_detected!("avx2") {
        return (0, 0);
    }
    let mut state: u64 = 0x9E3779B97F4A7C15;
    let mut next = move || {
        state ^= state << 13;
        state ^= state >> 7;
        state ^= state << 17;
        state
    };
    let mut run = 0;
    let mut bad = 0;
    for case in 0..n {
        let mut a = [0u8; 32];
        let mut b = [0u8; 32];
        for i in 0..32 {
            a[i] = next() as u8;
            b[i] = next() as u8;
        }
        if case % 7 == 0 {
            // edge vectors: single-lane patterns
            for i in 0..32 {
                b[i] = if i == case % 32 { 0x80 | (case as u8) } else { (case / 32) as u8 };
            }
        }
        if case % 11 == 0 {
            for i in 0..32 {
                a[i] = 0xff;
            }
        }
        let (ra, rt) = unsafe { real_ops(from_bytes(a), from_bytes(b)) };
        if to_bytes(ra) != to_bytes(model_shuffle_epi8(from_bytes(a), from_bytes(b))) {
            bad += 1;
        }
        if rt != model_testc_si256(from_bytes(a), from_bytes(b)) {
            bad += 1;
        }
        run += 1;
    }
    (run, bad)
}

#[target_feature(enable = "avx2")]
unsafe fn real_ops(a: __m256i, b: __m256i) -> (__m256i, i32) {
    (_mm256_shuffle_epi8(a, b), _mm256_testc_si256(a, b))
}
