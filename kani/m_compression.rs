// Kani BOUNDED stand-ins for src/compression.rs: the REAL `compress_kmers` pipeline (BoomHashMap2 construction,
// build_node, extend_kmer, BaseGraph::add) on a CONCRETE k-mer set whose links are switched on/off symbolically.
// Concrete keys keep the third-party MPHF construction tractable for CBMC (symbolic keys are not).
// Nothing here is counted as proved; it is the only executable cross-check of the C01/C02 assembly step
// (build_node) which no unbounded contract reaches.

use super::*;
use crate::kmer::Kmer4;
use crate::verif::src::Src;
use crate::verif::{chk, harness};
use crate::{Kmer, Mer, Vmer};

fn k4(s: &[u8; 4]) -> Kmer4 {
    Kmer4::from_ascii(s)
}

/// BOUNDED: the three 4-mers of the read AAACGA (stranded mode), each of the two links present or absent
/// (symbolic, symmetric on both k-mers), payload 1 per k-mer reduced by +. Checks the C01 clauses on the result:
/// every input k-mer occurs in exactly one node at exactly one offset, no node contains a foreign k-mer, node
/// count = number of connected components, payload = number of k-mers of the node, no dangling extension.
pub fn c_compress_chain3<S: Src>(s: &mut S) {
    let keys = [k4(b"AAAC"), k4(b"AACG"), k4(b"ACGA")];
    let l1 = s.bool();
    let l2 = s.bool();
    s.cover(l1 && !l2);
    let mut e = [Exts::empty(); 3];
    if l1 {
        e[0] = e[0].set(Dir::Right, 2); // AAAC -G-> AACG
        e[1] = e[1].set(Dir::Left, 0); //  AACG <-A- AAAC
    }
    if l2 {
        e[1] = e[1].set(Dir::Right, 0); // AACG -A-> ACGA
        e[2] = e[2].set(Dir::Left, 0); //  ACGA <-A- AACG
    }
    let table = [(keys[0], (e[0], 1u16)), (keys[1], (e[1], 1u16)), (keys[2], (e[2], 1u16))];
    let spec = SimpleCompress::new(|a: u16, b: &u16| a + *b);
    let g = compress_kmers(true, &spec, &table);
    let n_nodes = g.len();
    let expect_nodes = 3 - (l1 as usize) - (l2 as usize);
    chk!(s, n_nodes == expect_nodes, "node count = number of maximal unbranched paths");
    let mut seen = [0u8; 3];
    let mut total = 0usize;
    let mut i = 0;
    while i < n_nodes {
        let sq = g.sequences.get(i);
        let len = sq.len();
        chk!(s, len >= 4 && len <= 6, "node length");
        let nk = len - 3;
        chk!(s, g.data[i] as usize == nk, "payload = reduction over exactly the node's k-mers");
        chk!(s, g.exts[i].val == 0, "no extension left pointing outside the (closed) table");
        let mut w = 0;
        while w < nk {
            let km: Kmer4 = sq.get_kmer(w);
            let mut hit = 3usize;
            let mut t = 0;
            while t < 3 {
                if km == keys[t] {
                    hit = t;
                }
                t += 1;
            }
            chk!(s, hit < 3, "no node contains a k-mer that was not in the table");
            if hit < 3 {
                seen[hit] += 1;
            }
            w += 1;
        }
        total += nk;
        i += 1;
    }
    chk!(s, total == 3, "nodes hold exactly as many k-mers as the table");
    chk!(s, seen[0] == 1 && seen[1] == 1 && seen[2] == 1, "each input k-mer occurs in exactly one node at exactly one offset");
}

// NOT REGISTERED: even with concrete keys the boomphf MPHF construction inside `compress_kmers` keeps CBMC 6.11 busy
// for more than 50 CPU minutes (7 GB) without a verdict. The contract function is kept for the native replay build
// only (it can be run on concrete inputs); no check depends on it.
// harness!(c_compress_chain3_h, c_compress_chain3, unwind 70);

pub fn replay(name: &str, s: &mut crate::verif::src::RSrc) -> bool {
    match name {
        "c_compress_chain3_h" => c_compress_chain3(s),
        _ => return false,
    }
    true
}
