// contracts needing private items of src/compression.rs
