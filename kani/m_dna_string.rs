// Kani contracts / bounded stand-ins for src/dna_string.rs (private items reachable from here).
//   d_count_diff            complete (all pairs of words)
//   everything named *_b*   BOUNDED stand-in (bound in the name / comment) - never counted as proved

use super::*;
use crate::verif::src::Src;
use crate::verif::tables::{spec_code, spec_letter};
use crate::verif::{chk, harness};
use std::fmt::Write as FmtWrite;

/// build a DnaString from raw words (private fields)
pub fn mk_dna(words: Vec<u64>, len: usize) -> DnaString {
    DnaString { storage: words, len }
}

pub fn raw_lane(w: u64, j: usize) -> u8 {
    ((w >> (62 - 2 * j)) & 3) as u8
}

pub fn spec_word_diff(a: u64, b: u64) -> u32 {
    let mut n = 0u32;
    let mut j = 0;
    while j < 32 {
        if raw_lane(a, j) != raw_lane(b, j) {
            n += 1;
        }
        j += 1;
    }
    n
}

/// count_diff_2_bit_packed(a, b) == number of differing lanes, all 2^128 pairs.
pub fn c_count_diff<S: Src>(s: &mut S) {
    let a = s.u64();
    let b = s.u64();
    s.cover(a != b);
    chk!(s, count_diff_2_bit_packed(a, b) == spec_word_diff(a, b), "count_diff_2_bit_packed counts differing lanes");
}

/// Fixed-capacity fmt::Write sink
pub struct Sink {
    pub buf: [u8; 16],
    pub n: usize,
}

impl std::fmt::Write for Sink {
    fn write_str(&mut self, s: &str) -> std::fmt::Result {
        let b = s.as_bytes();
        let mut i = 0;
        while i < b.len() {
            if self.n < 16 {
                self.buf[self.n] = b[i];
            }
            self.n += 1;
            i += 1;
        }
        Ok(())
    }
}

/// BOUNDED (length exactly 1024 = 32 words; the two strings differ only inside word 0):
/// DnaStringSlice::hamming_dist equals the number of differing positions. Paired counterexample
/// harness for the unbounded Verus contract of hamming_dist.
pub fn c_slice_hamming_1024<S: Src>(s: &mut S) {
    // only word 0 is symbolic (the rest are A): keeps the 1024-iteration tail loop cheap for CBMC
    let mut wa = vec![0u64; 32];
    wa[0] = s.u64();
    let mut wb = vec![0u64; 32];
    wb[0] = s.u64();
    let expect = spec_word_diff(wa[0], wb[0]);
    s.cover(expect == 1);
    let a = DnaString { storage: wa, len: 1024 };
    let b = DnaString { storage: wb, len: 1024 };
    let sa = a.slice(0, 1024);
    let sb = b.slice(0, 1024);
    chk!(s, sa.hamming_dist(&sb) == expect, "slice hamming_dist counts differing positions (length 1024)");
}

/// BOUNDED (length <= 40, arbitrary offsets into 3-word strings, both strands):
pub fn c_slice_hamming_40<S: Src>(s: &mut S) {
    let wa = vec![s.u64(), s.u64(), s.u64()];
    let wb = vec![s.u64(), s.u64(), s.u64()];
    let a = DnaString { storage: wa, len: 96 };
    let b = DnaString { storage: wb, len: 96 };
    let len = s.usize();
    let oa = s.usize();
    let ob = s.usize();
    s.assume(len <= 40 && oa <= 96 - len && ob <= 96 - len);
    let ra = s.bool();
    s.cover(len == 40 && oa == 17);
    let mut sa = a.slice(oa, oa + len);
    if ra {
        sa = sa.rc();
    }
    let sb = b.slice(ob, ob + len);
    let mut n = 0u32;
    let mut i = 0;
    while i < len {
        if sa.get(i) != sb.get(i) {
            n += 1;
        }
        i += 1;
    }
    chk!(s, sa.hamming_dist(&sb) == n, "slice hamming_dist counts differing positions (length <= 40)");
}

/// BOUNDED (3 bases): Debug and Display of a slice render the slice's own bases (reverse
/// complemented when so flagged).
pub fn c_slice_render_3<S: Src>(s: &mut S) {
    let w = s.u64();
    s.assume(w & ((1u64 << 58) - 1) == 0);
    let a = DnaString { storage: vec![w], len: 3 };
    let rc = s.bool();
    let dbg = s.bool();
    s.cover(rc && dbg);
    let mut sl = a.slice(0, 3);
    if rc {
        sl = sl.rc();
    }
    let mut sink = Sink { buf: [0; 16], n: 0 };
    if dbg {
        let _ = write!(sink, "{:?}", sl);
    } else {
        let _ = write!(sink, "{}", sl);
    }
    chk!(s, sink.n == 3, "rendering has one character per base");
    let mut i = 0;
    while i < 3 {
        let base = if rc { 3 - raw_lane(w, 2 - i) } else { raw_lane(w, i) };
        chk!(s, sink.buf[i] == spec_letter(base), "rendering spells the slice's bases (rc when flagged)");
        i += 1;
    }
}


/// wf of a raw (words, len) pair: exactly ceil(len/32) words, padding lanes zero
pub fn spec_wf(words: &[u64], len: usize) -> bool {
    if words.len() != (len + 31) / 32 {
        return false;
    }
    if len % 32 != 0 {
        let used = len % 32;
        if (words[words.len() - 1] << (2 * used)) != 0 {
            return false;
        }
    }
    true
}

pub fn spec_base(words: &[u64], i: usize) -> u8 {
    raw_lane(words[i / 32], i % 32)
}

/// lexicographic order of the base sequences, proper prefix first
pub fn spec_lex(wa: &[u64], la: usize, wb: &[u64], lb: usize) -> std::cmp::Ordering {
    let mut i = 0;
    while i < la && i < lb {
        let x = spec_base(wa, i);
        let y = spec_base(wb, i);
        if x < y {
            return std::cmp::Ordering::Less;
        }
        if x > y {
            return std::cmp::Ordering::Greater;
        }
        i += 1;
    }
    la.cmp(&lb)
}

/// a well-formed string of a FIXED length with symbolic contents (symbolic lengths exhaust CBMC's memory)
fn fixed_dna<S: Src>(s: &mut S, len: usize) -> (Vec<u64>, usize) {
    let nw = (len + 31) / 32;
    let mut w = Vec::new();
    let mut i = 0;
    while i < nw {
        w.push(s.u64());
        i += 1;
    }
    s.assume(spec_wf(&w, len));
    (w, len)
}

fn any_dna<S: Src>(s: &mut S, max_words: usize) -> (Vec<u64>, usize) {
    let len = s.usize();
    s.assume(len <= 32 * max_words);
    let nw = (len + 31) / 32;
    let mut w = Vec::new();
    let mut i = 0;
    while i < max_words {
        let x = s.u64();
        if i < nw {
            w.push(x);
        }
        i += 1;
    }
    s.assume(spec_wf(&w, len));
    (w, len)
}

/// BOUNDED (<= 2 words = 64 bases each): derived ==, cmp and Hash of DnaString depend only on the base
/// sequence; cmp is lexicographic with a proper prefix first. Catches a changed derive list / field order
/// and any reliance on padding.
pub fn c_dna_eq_ord_hash_b2<S: Src>(s: &mut S) {
    let (wa, la) = any_dna(s, 2);
    let (wb, lb) = any_dna(s, 2);
    let want = spec_lex(&wa, la, &wb, lb);
    s.cover(want == std::cmp::Ordering::Equal && la == 33);
    s.cover(want == std::cmp::Ordering::Less && la > lb);
    let a = DnaString { storage: wa, len: la };
    let b = DnaString { storage: wb, len: lb };
    chk!(s, a.cmp(&b) == want, "DnaString cmp is lexicographic on bases, proper prefix first");
    chk!(s, (a == b) == (want == std::cmp::Ordering::Equal), "DnaString == holds exactly for equal base sequences");
    chk!(s, a.partial_cmp(&b) == Some(want), "DnaString partial_cmp agrees with cmp");
    if want == std::cmp::Ordering::Equal {
        let mut ha = crate::verif::kmers::RecHasher::new();
        let mut hb = crate::verif::kmers::RecHasher::new();
        std::hash::Hash::hash(&a, &mut ha);
        std::hash::Hash::hash(&b, &mut hb);
        chk!(s, ha.n <= 64, "hash stream recorded completely");
        chk!(s, ha.n == hb.n && ha.buf == hb.buf, "equal base sequences feed the same bytes to any Hasher");
    }
}

/// complete (all pairs of words): unsigned comparison of two packed words is the lexicographic
/// comparison of their 32 lanes - the word-level fact behind DnaString/k-mer ordering.
pub fn c_word_order<S: Src>(s: &mut S) {
    let a = s.u64();
    let b = s.u64();
    s.cover(a != b);
    let wa = [a];
    let wb = [b];
    chk!(s, a.cmp(&b) == spec_lex(&wa, 32, &wb, 32), "u64 order of packed words is lane-lexicographic");
}

harness!(d_dna_eq_ord_hash_b2, c_dna_eq_ord_hash_b2, unwind 70);
harness!(d_word_order, c_word_order, unwind 34);

fn draw_bytes<S: Src, const N: usize>(s: &mut S, bases: bool) -> [u8; N] {
    let mut buf = [0u8; N];
    let mut i = 0;
    while i < N {
        buf[i] = s.u8();
        if bases {
            s.assume(buf[i] < 4);
        }
        i += 1;
    }
    buf
}

fn view_ok(d: &DnaString) -> bool {
    spec_wf(&d.storage, d.len)
}

/// BOUNDED (prefix <= 32 bases built directly as a well-formed value, then <= 37 appended items so that the
/// per-base path, a whole 32-chunk and a remainder all occur): extend appends exactly the items.
pub fn c_extend_b<S: Src, const LEN: usize, const N: usize>(s: &mut S) {
    let (w, len) = fixed_dna(s, LEN);
    let buf: [u8; 37] = draw_bytes(s, true);
    let n = N;
    let j = s.usize();
    s.assume(j < len + n);
    s.cover(true);
    let old = w.clone();
    let mut d = DnaString { storage: w, len };
    d.extend(buf[..n].iter().cloned());
    chk!(s, d.len == len + n, "extend: length grows by the number of items");
    chk!(s, view_ok(&d), "extend keeps the string well formed (word count, zero padding)");
    let want = if j < len { spec_base(&old, j) } else { buf[j - len] };
    chk!(s, spec_base(&d.storage, j) == want, "extend: old bases kept, new bases are the items in order");
}

/// BOUNDED (<= 40 bases): rc / reverse / to_bytes / to_ascii_vec agree with the plain vector.
pub fn c_rc_reverse_b<S: Src, const LEN: usize>(s: &mut S) {
    let (w, len) = fixed_dna(s, LEN);
    let j = s.usize();
    s.assume(j < len);
    s.cover(true);
    let d = DnaString { storage: w.clone(), len };
    let r = crate::Mer::rc(&d);
    chk!(s, r.len == len && view_ok(&r), "rc keeps the length and is well formed");
    chk!(s, spec_base(&r.storage, j) == 3 - spec_base(&w, len - 1 - j), "rc: position i <-> n-1-i, base b -> 3-b");
    let v = d.reverse();
    chk!(s, v.len == len && view_ok(&v), "reverse keeps the length and is well formed");
    chk!(s, spec_base(&v.storage, j) == spec_base(&w, len - 1 - j), "reverse: position i <-> n-1-i");
}

pub fn c_to_bytes_b<S: Src, const LEN: usize>(s: &mut S) {
    let (w, len) = fixed_dna(s, LEN);
    let j = s.usize();
    s.assume(j < len);
    s.cover(true);
    let d = DnaString { storage: w.clone(), len };
    let b = d.to_bytes();
    let a = d.to_ascii_vec();
    chk!(s, b.len() == len && a.len() == len, "to_bytes / to_ascii_vec have one entry per base");
    chk!(s, b[j] == spec_base(&w, j), "to_bytes: entry j is base j");
    chk!(s, a[j] == spec_letter(spec_base(&w, j)), "to_ascii_vec: entry j is the letter of base j");
}

/// BOUNDED (<= 70 bytes: zero, one and two vector blocks plus a tail; vector path taken and not taken):
/// from_acgt_bytes maps every byte like base_to_bits, whichever internal path handles it.
pub fn c_from_acgt_bytes_b<S: Src, const N: usize>(s: &mut S) {
    let buf: [u8; 70] = draw_bytes(s, false);
    let n = N;
    let j = s.usize();
    s.assume(j < n);
    s.cover(true);
    let d = DnaString::from_acgt_bytes(&buf[..n]);
    chk!(s, d.len == n, "from_acgt_bytes: one base per byte");
    chk!(s, view_ok(&d), "from_acgt_bytes result is well formed");
    let want = match spec_code(buf[j]) {
        Some(c) => c,
        None => 0,
    };
    chk!(s, spec_base(&d.storage, j) == want, "from_acgt_bytes: base j is the code of byte j, non-ACGT -> A");
}

/// BOUNDED (<= 6 bytes): the strict constructor returns exactly the maximal ACGT runs.
pub fn c_from_dna_only_b<S: Src>(s: &mut S) {
    let buf: [u8; 6] = draw_bytes(s, false);
    let n = 5usize;
    let mut i = 0;
    while i < 6 {
        s.assume(buf[i] < 128); // ASCII text (a &str)
        i += 1;
    }
    s.cover(true);
    let text = match std::str::from_utf8(&buf[..n]) {
        Ok(t) => t,
        Err(_) => return,
    };
    let runs = DnaString::from_dna_only_string(text);
    // reference: scan for maximal runs
    let mut r = 0usize; // run index
    let mut pos_in_run = 0usize;
    let mut k = 0;
    while k < n {
        match spec_code(buf[k]) {
            Some(c) => {
                chk!(s, r < runs.len(), "from_dna_only_string: a run exists for every ACGT stretch");
                if r < runs.len() {
                    chk!(s, pos_in_run < runs[r].len, "from_dna_only_string: run long enough");
                    if pos_in_run < runs[r].len {
                        chk!(s, spec_base(&runs[r].storage, pos_in_run) == c, "from_dna_only_string: run spells the ACGT letters");
                    }
                }
                pos_in_run += 1;
            }
            None => {
                if pos_in_run > 0 {
                    if r < runs.len() {
                        chk!(s, runs[r].len == pos_in_run, "from_dna_only_string: run ends at the first non-ACGT byte");
                    }
                    r += 1;
                    pos_in_run = 0;
                }
            }
        }
        k += 1;
    }
    if pos_in_run > 0 {
        if r < runs.len() {
            chk!(s, runs[r].len == pos_in_run, "from_dna_only_string: last run ends at the end of input");
        }
        r += 1;
    }
    chk!(s, runs.len() == r, "from_dna_only_string: exactly the maximal ACGT runs, no empty strings");
}

/// BOUNDED (<= 5 bases per sequence, 2 sequences): PackedDnaStringSet::add / get return every added
/// sequence unchanged at its index.
pub fn c_packed_add_b<S: Src>(s: &mut S) {
    let a: [u8; 5] = draw_bytes(s, true);
    let b: [u8; 5] = draw_bytes(s, true);
    let na = 5usize;
    let nb = 3usize;
    let j = s.usize();
    s.cover(true);
    let mut set = PackedDnaStringSet::new();
    set.add(a[..na].iter());
    set.add(b[..nb].iter());
    chk!(s, set.len() == 2, "two sequences stored");
    let g0 = set.get(0);
    let g1 = set.get(1);
    chk!(s, crate::Mer::len(&g0) == na && crate::Mer::len(&g1) == nb, "stored lengths");
    if j < na {
        chk!(s, crate::Mer::get(&g0, j) == a[j], "sequence 0 returned unchanged");
    }
    if j < nb {
        chk!(s, crate::Mer::get(&g1, j) == b[j], "sequence 1 returned unchanged after a later add");
    }
}

/// BOUNDED (1-word strings): quick variant of the eq/ord/hash law.
pub fn c_dna_eq_ord_hash_b1<S: Src>(s: &mut S) {
    let (wa, la) = any_dna(s, 1);
    let (wb, lb) = any_dna(s, 1);
    let want = spec_lex(&wa, la, &wb, lb);
    s.cover(want == std::cmp::Ordering::Equal && la == 7);
    s.cover(want == std::cmp::Ordering::Less && la > lb);
    let a = DnaString { storage: wa, len: la };
    let b = DnaString { storage: wb, len: lb };
    chk!(s, a.cmp(&b) == want, "DnaString cmp is lexicographic on bases, proper prefix first");
    chk!(s, (a == b) == (want == std::cmp::Ordering::Equal), "DnaString == holds exactly for equal base sequences");
}

harness!(d_extend_b_30_37, c_extend_b::<_, 30, 37>, unwind 40);
harness!(d_extend_b_0_33, c_extend_b::<_, 0, 33>, unwind 40);
harness!(d_extend_b_32_1, c_extend_b::<_, 32, 1>, unwind 40);
harness!(d_rc_reverse_b_33, c_rc_reverse_b::<_, 33>, unwind 42);
harness!(d_to_bytes_b_33, c_to_bytes_b::<_, 33>, unwind 42);
// d_from_dna_only_b (str::from_utf8 + chars + Vec<DnaString>) needs > 40 GB in CBMC 6.11: not registered.
harness!(d_packed_add_b, c_packed_add_b, unwind 8);
harness!(d_dna_eq_ord_hash_b1, c_dna_eq_ord_hash_b1, unwind 36);

#[cfg(kani)]
fn nondet_feature() -> bool {
    kani::any()
}

#[cfg(kani)]
#[kani::proof]
#[kani::unwind(72)]
#[kani::stub(std::arch::x86_64::_mm256_shuffle_epi8, crate::bitops_avx2::verif::model_shuffle_epi8)]
#[kani::stub(std::arch::x86_64::_mm256_testc_si256, crate::bitops_avx2::verif::model_testc_si256)]
#[kani::stub(std_detect::detect::__is_feature_detected::avx2, nondet_feature)]
pub fn d_from_acgt_bytes_b_70() {
    c_from_acgt_bytes_b::<_, 70>(&mut crate::verif::src::KSrc)
}

#[cfg(kani)]
#[kani::proof]
#[kani::unwind(72)]
#[kani::stub(std::arch::x86_64::_mm256_shuffle_epi8, crate::bitops_avx2::verif::model_shuffle_epi8)]
#[kani::stub(std::arch::x86_64::_mm256_testc_si256, crate::bitops_avx2::verif::model_testc_si256)]
#[kani::stub(std_detect::detect::__is_feature_detected::avx2, nondet_feature)]
pub fn d_from_acgt_bytes_b_31() {
    c_from_acgt_bytes_b::<_, 31>(&mut crate::verif::src::KSrc)
}

/// BOUNDED (96-base string = 3 words, symbolic contents and position): DnaString::get_kmer and
/// DnaStringSlice::get_kmer (forward) equal the window of bases, for one k-mer type per instantiation.
/// Paired counterexample harness for the unbounded Verus contract of get_kmer.
pub fn c_get_kmer_b<K: crate::verif::kmers::KV, S: Src>(s: &mut S) {
    let (w, len) = fixed_dna(s, 96);
    let pos = s.usize();
    let j = s.usize();
    s.assume(pos <= 96 - K::KK && j < K::KK);
    s.cover(pos % 32 != 0 && pos / 32 != (pos + K::KK - 1) / 32);
    let d = DnaString { storage: w.clone(), len };
    let k: K = crate::Vmer::get_kmer(&d, pos);
    chk!(s, crate::verif::kmers::lane(&k, j) == spec_base(&w, pos + j), "DnaString::get_kmer(pos): base j is base pos+j of the string");
    chk!(s, crate::verif::kmers::inv(&k), "get_kmer keeps unused storage bits zero");
    let sl = d.slice(0, 96);
    let k2: K = crate::Vmer::get_kmer(&sl, pos);
    chk!(s, k2.bits() == k.bits(), "slice get_kmer agrees with the string's");
}

/// BOUNDED (fixed N): blank(N) is N A's with exactly ceil(N/32) words, equals the string built by pushes, and a
/// following extend appends after it. Paired counterexample harness for the Verus contract of blank.
pub fn c_blank_b<S: Src, const N: usize>(s: &mut S) {
    let mut d = DnaString::blank(N);
    s.cover(true);
    chk!(s, d.len == N && view_ok(&d), "blank(n): length n, exactly ceil(n/32) words, zero padding");
    let mut e = DnaString::new();
    let mut i = 0;
    while i < N {
        e.push(0);
        i += 1;
    }
    chk!(s, d == e, "blank(n) equals the string of n A's built by push");
    let buf: [u8; 3] = draw_bytes(s, true);
    d.extend(buf.iter().cloned());
    chk!(s, d.len == N + 3 && view_ok(&d), "extend after blank keeps the string well formed");
    let j = s.usize();
    s.assume(j < 3);
    chk!(s, spec_base(&d.storage, N + j) == buf[j], "extend after blank appends the items");
}

/// BOUNDED (eight CONCRETE reads, nothing symbolic): from_acgt_bytes_hashn leaves ACGT untouched, substitutes only valid
/// bases, and the substitute at a position does not depend on earlier Ns (function of (read name, position)).
pub fn c_hashn_concrete<S: Src>(s: &mut S) {
    s.cover(true);
    let name = [b'r', b'1'];
    let all_n = DnaString::from_acgt_bytes_hashn(b"NCNNGNNN", &name);
    let again = DnaString::from_acgt_bytes_hashn(b"NCNNGNNN", &name);
    chk!(s, all_n.len == 8, "hashn: one base per byte");
    chk!(s, spec_base(&all_n.storage, 1) == 1 && spec_base(&all_n.storage, 4) == 2, "hashn leaves ACGT untouched");
    chk!(s, all_n.storage[0] == again.storage[0], "hashn is deterministic");
    // the substitute at position i must be the same whether or not earlier positions were N
    let singles: [&[u8; 8]; 6] = [b"NCAAGAAA", b"ACNAGAAA", b"ACANGAAA", b"ACAAGNAA", b"ACAAGANA", b"ACAAGAAN"];
    let pos = [0usize, 2, 3, 5, 6, 7];
    let mut i = 0;
    while i < 6 {
        let one = DnaString::from_acgt_bytes_hashn(singles[i], &name);
        chk!(s, spec_base(&one.storage, pos[i]) == spec_base(&all_n.storage, pos[i]),
             "hashn: the substitute at a position is a function of (read name, position) only");
        i += 1;
    }
}

/// BOUNDED (one 40-base string, two slices of fixed length 6 at symbolic offsets and strands): slice equality holds
/// exactly when the two views spell the same bases. Fallback counterexample harness for `PartialEq for DnaStringSlice`.
pub fn c_slice_eq_b<S: Src>(s: &mut S) {
    let (w, _len) = fixed_dna(s, 40);
    let d = DnaString { storage: w, len: 40 };
    let a = s.usize();
    let b = s.usize();
    s.assume(a <= 34 && b <= 34);
    let ra = s.bool();
    let rb = s.bool();
    s.cover(a == b && ra != rb);
    let mut sa = d.slice(a, a + 6);
    let mut sb = d.slice(b, b + 6);
    if ra {
        sa = crate::Mer::rc(&sa);
    }
    if rb {
        sb = crate::Mer::rc(&sb);
    }
    let mut same = true;
    let mut i = 0;
    while i < 6 {
        if crate::Mer::get(&sa, i) != crate::Mer::get(&sb, i) {
            same = false;
        }
        i += 1;
    }
    chk!(s, (sa == sb) == same, "slice == holds exactly when the two views spell the same bases");
}

harness!(d_slice_eq_b, c_slice_eq_b, unwind 10);
harness!(d_hashn_concrete, c_hashn_concrete, unwind 40);
harness!(d_get_kmer_b_k64, c_get_kmer_b::<crate::kmer::Kmer64, _>, unwind 40);
harness!(d_get_kmer_b_k48, c_get_kmer_b::<crate::kmer::Kmer48, _>, unwind 40);
harness!(d_get_kmer_b_k32, c_get_kmer_b::<crate::kmer::Kmer32, _>, unwind 40);
harness!(d_get_kmer_b_k20, c_get_kmer_b::<crate::kmer::Kmer20, _>, unwind 40);
harness!(d_get_kmer_b_k5, c_get_kmer_b::<crate::kmer::Kmer5, _>, unwind 40);
harness!(d_blank_b_0, c_blank_b::<_, 0>, unwind 40);
harness!(d_blank_b_32, c_blank_b::<_, 32>, unwind 40);
harness!(d_blank_b_33, c_blank_b::<_, 33>, unwind 40);
harness!(d_rc_reverse_b_64, c_rc_reverse_b::<_, 64>, unwind 70);
harness!(d_count_diff, c_count_diff, unwind 34);
harness!(d_slice_hamming_1024, c_slice_hamming_1024, unwind 1027);
// d_slice_hamming_40 (symbolic length) exhausts memory in CBMC 6.11: not registered.
harness!(d_slice_render_3, c_slice_render_3, unwind 18);

pub fn replay(name: &str, s: &mut crate::verif::src::RSrc) -> bool {
    match name {
        "d_count_diff" => c_count_diff(s),
        "d_extend_b_30_37" => c_extend_b::<_, 30, 37>(s),
        "d_extend_b_0_33" => c_extend_b::<_, 0, 33>(s),
        "d_extend_b_32_1" => c_extend_b::<_, 32, 1>(s),
        "d_rc_reverse_b_33" => c_rc_reverse_b::<_, 33>(s),
        "d_rc_reverse_b_64" => c_rc_reverse_b::<_, 64>(s),
        "d_slice_eq_b" => c_slice_eq_b(s),
        "d_hashn_concrete" => c_hashn_concrete(s),
        "d_get_kmer_b_k64" => c_get_kmer_b::<crate::kmer::Kmer64, _>(s),
        "d_get_kmer_b_k48" => c_get_kmer_b::<crate::kmer::Kmer48, _>(s),
        "d_get_kmer_b_k32" => c_get_kmer_b::<crate::kmer::Kmer32, _>(s),
        "d_get_kmer_b_k20" => c_get_kmer_b::<crate::kmer::Kmer20, _>(s),
        "d_get_kmer_b_k5" => c_get_kmer_b::<crate::kmer::Kmer5, _>(s),
        "d_blank_b_0" => c_blank_b::<_, 0>(s),
        "d_blank_b_32" => c_blank_b::<_, 32>(s),
        "d_blank_b_33" => c_blank_b::<_, 33>(s),
        "d_to_bytes_b_33" => c_to_bytes_b::<_, 33>(s),
        "d_from_acgt_bytes_b_70" => c_from_acgt_bytes_b::<_, 70>(s),
        "d_from_acgt_bytes_b_31" => c_from_acgt_bytes_b::<_, 31>(s),
        "d_from_dna_only_b" => c_from_dna_only_b(s),
        "d_packed_add_b" => c_packed_add_b(s),
        "d_dna_eq_ord_hash_b1" => c_dna_eq_ord_hash_b1(s),
        "d_dna_eq_ord_hash_b2" => c_dna_eq_ord_hash_b2(s),
        "d_word_order" => c_word_order(s),
        "d_slice_hamming_1024" => c_slice_hamming_1024(s),
        "d_slice_hamming_40" => c_slice_hamming_40(s),
        "d_slice_render_3" => c_slice_render_3(s),
        _ => return false,
    }
    true
}
