// contracts needing private items of src/dna_string.rs
