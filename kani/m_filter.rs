// Contracts for src/filter.rs leaf functions: `bucket` (private) and the two shipped summarizers.

use super::*;
use crate::verif::exts::has;
use crate::verif::kmers::{any_kmer, lane, spec_cmp, KV};
use crate::verif::src::Src;
use crate::verif::{chk, harness};
use crate::kmer::*;
use std::cmp::Ordering;

/// bucket(k) is the rank of the first four bases (0..256) and is monotone in the k-mer order, so
/// concatenating per-bucket sorted runs in bucket order is globally ascending.
pub fn c_bucket<K: KV, S: Src>(s: &mut S) {
    let x: K = any_kmer(s);
    let y: K = any_kmer(s);
    s.cover(x.bits() != y.bits());
    let bx = bucket(x);
    let by = bucket(y);
    let want = (lane(&x, 0) as usize) * 64 + (lane(&x, 1) as usize) * 16 + (lane(&x, 2) as usize) * 4
        + lane(&x, 3) as usize;
    chk!(s, bx == want, "bucket is the rank of the first four bases");
    chk!(s, bx < 256, "bucket < 256");
    if spec_cmp::<K>(x.bits(), y.bits()) != Ordering::Greater {
        chk!(s, bx <= by, "bucket is monotone in the k-mer order");
    }
}

/// Bounded stand-in: CountFilter::summarize over <= 6 observations.
pub fn c_count_filter<S: Src>(s: &mut S) {
    let n = s.usize();
    s.assume(n <= 6);
    let min_obs = s.usize();
    let mut items: Vec<(u8, Exts, u8)> = Vec::new();
    let mut union = 0u8;
    let mut i = 0;
    while i < 6 {
        let e = s.u8();
        if i < n {
            items.push((0u8, Exts::new(e), 0u8));
            union |= e;
        }
        i += 1;
    }
    s.cover(n == 6);
    let f = CountFilter::new(min_obs);
    let (ok, exts, count) = KmerSummarizer::<u8, u16>::summarize(&f, items.into_iter());
    chk!(s, count as usize == n, "CountFilter: count is the number of observations");
    chk!(s, exts.val == union, "CountFilter: extensions are the union over the observations");
    chk!(s, ok == (n >= min_obs), "CountFilter: accepted iff count >= threshold");
}

/// Bounded stand-in: CountFilterSet::summarize over <= 2 observations with u8 labels (3 observations are intractable for CBMC).
pub fn c_count_filter_set_2<S: Src>(s: &mut S) {
    let n = s.usize();
    s.assume(n <= 2);
    let min_obs = s.usize();
    let probe = s.u8();
    let e0 = s.u8();
    let d0 = s.u8();
    let e1 = s.u8();
    let d1 = s.u8();
    let mut items: Vec<(u8, Exts, u8)> = Vec::new();
    let mut union = 0u8;
    let mut probe_seen = false;
    if n >= 1 {
        items.push((0u8, Exts::new(e0), d0));
        union |= e0;
        probe_seen = probe_seen || d0 == probe;
    }
    if n >= 2 {
        items.push((0u8, Exts::new(e1), d1));
        union |= e1;
        probe_seen = probe_seen || d1 == probe;
    }
    s.cover(n == 2 && d0 == d1);
    let f: CountFilterSet<u8> = CountFilterSet::new(min_obs);
    let (ok, exts, data) = f.summarize(items.into_iter());
    chk!(s, exts.val == union, "CountFilterSet: extensions are the union over the observations");
    chk!(s, ok == (n >= min_obs), "CountFilterSet: accepted iff #observations >= threshold");
    chk!(s, data.len() <= n, "CountFilterSet: no more labels than observations");
    let found = (data.len() >= 1 && data[0] == probe) || (data.len() >= 2 && data[1] == probe);
    chk!(s, found == probe_seen, "CountFilterSet: label set is exactly the set of observed labels");
    if data.len() == 2 {
        chk!(s, data[0] < data[1], "CountFilterSet: labels strictly ascending (sorted, de-duplicated)");
    }
}

/// Bounded stand-in: CountFilterSet::summarize over <= 3 observations with u8 labels.
pub fn c_count_filter_set<S: Src>(s: &mut S) {
    let n = s.usize();
    s.assume(n <= 3);
    let min_obs = s.usize();
    let probe = s.u8();
    let mut items: Vec<(u8, Exts, u8)> = Vec::new();
    let mut union = 0u8;
    let mut probe_seen = false;
    let mut i = 0;
    while i < 3 {
        let e = s.u8();
        let d = s.u8();
        if i < n {
            items.push((0u8, Exts::new(e), d));
            union |= e;
            if d == probe {
                probe_seen = true;
            }
        }
        i += 1;
    }
    s.cover(n == 3);
    let f: CountFilterSet<u8> = CountFilterSet::new(min_obs);
    let (ok, exts, data) = f.summarize(items.into_iter());
    chk!(s, exts.val == union, "CountFilterSet: extensions are the union over the observations");
    chk!(s, ok == (n >= min_obs), "CountFilterSet: accepted iff #observations >= threshold");
    let mut found = false;
    let mut j = 0;
    while j < data.len() {
        if data[j] == probe {
            found = true;
        }
        if j > 0 {
            chk!(s, data[j - 1] < data[j], "CountFilterSet: labels strictly ascending (sorted, de-duplicated)");
        }
        j += 1;
    }
    chk!(s, found == probe_seen, "CountFilterSet: label set is exactly the set of observed labels");
    chk!(s, data.len() <= n, "CountFilterSet: no more labels than observations");
}

use crate::verif::exts::{any_dir, is_right};
use crate::verif::kmers::{spec_extend_bits, spec_rc_bits};

fn canon_target<K: KV>(x: &K, b: u8, right: bool, stranded: bool) -> u128 {
    let t = spec_extend_bits(x, b, right);
    if stranded {
        t
    } else {
        let y = K::from_bits(t);
        let rc = spec_rc_bits(&y);
        if spec_cmp::<K>(t, rc) == Ordering::Less { t } else { rc }
    }
}

/// BOUNDED (3 table entries, Kmer4, both strandedness values): remove_censored_exts keeps keys and payloads
/// and, for every entry, side and base, keeps the extension iff it was present and its (canonicalised)
/// target k-mer is a key of the table - "removes exactly the extensions whose target is absent".
pub fn c_remove_censored_3<S: Src>(s: &mut S) {
    type K = Kmer4;
    let k0: K = any_kmer(s);
    let k1: K = any_kmer(s);
    let k2: K = any_kmer(s);
    s.assume(k0.bits() < k1.bits() && k1.bits() < k2.bits());
    let e = [s.u8(), s.u8(), s.u8()];
    let stranded = s.bool();
    let idx = s.usize();
    s.assume(idx < 3);
    let d = any_dir(s);
    let b = s.u8();
    s.assume(b < 4);
    s.cover(!stranded);
    let mut v = [(k0, (Exts::new(e[0]), 7u8)), (k1, (Exts::new(e[1]), 8u8)), (k2, (Exts::new(e[2]), 9u8))];
    remove_censored_exts(stranded, &mut v);
    chk!(s, v[0].0.bits() == k0.bits() && v[1].0.bits() == k1.bits() && v[2].0.bits() == k2.bits(), "pruning keeps the keys");
    chk!(s, (v[0].1).1 == 7 && (v[1].1).1 == 8 && (v[2].1).1 == 9, "pruning keeps the payloads");
    let keys = [k0, k1, k2];
    let t = canon_target(&keys[idx], b, is_right(d), stranded);
    let in_keys = t == k0.bits() || t == k1.bits() || t == k2.bits();
    let was = has(e[idx], is_right(d), b);
    chk!(
        s,
        has((v[idx].1).0.val, is_right(d), b) == (was && in_keys),
        "pruning keeps an extension iff it was present and its target k-mer is in the table"
    );
}

/// BOUNDED (2 valid entries, 3 shard k-mers, Kmer4): the sharded variant keeps an extension iff it was present
/// and its target is valid or not a k-mer of this shard at all.
pub fn c_remove_censored_sharded<S: Src>(s: &mut S) {
    type K = Kmer4;
    let k0: K = any_kmer(s);
    let k1: K = any_kmer(s);
    s.assume(k0.bits() < k1.bits());
    let a0: K = any_kmer(s);
    let a1: K = any_kmer(s);
    let a2: K = any_kmer(s);
    s.assume(a0.bits() < a1.bits() && a1.bits() < a2.bits());
    let e = [s.u8(), s.u8()];
    let stranded = s.bool();
    let idx = s.usize();
    s.assume(idx < 2);
    let d = any_dir(s);
    let b = s.u8();
    s.assume(b < 4);
    s.cover(true);
    let mut v = [(k0, (Exts::new(e[0]), ())), (k1, (Exts::new(e[1]), ()))];
    let all = [a0, a1, a2];
    remove_censored_exts_sharded(stranded, &mut v, &all);
    chk!(s, v[0].0.bits() == k0.bits() && v[1].0.bits() == k1.bits(), "sharded pruning keeps the keys");
    let keys = [k0, k1];
    let t = canon_target(&keys[idx], b, is_right(d), stranded);
    let valid = t == k0.bits() || t == k1.bits();
    let in_shard = t == a0.bits() || t == a1.bits() || t == a2.bits();
    let was = has(e[idx], is_right(d), b);
    chk!(
        s,
        has((v[idx].1).0.val, is_right(d), b) == (was && (valid || !in_shard)),
        "sharded pruning removes exactly the extensions whose target is in this shard but not valid"
    );
}

harness!(f_remove_censored_3, c_remove_censored_3, unwind 12);
harness!(f_remove_censored_sharded, c_remove_censored_sharded, unwind 12);

macro_rules! bucket_suite {
    ($($m:ident : $ty:ty, $u:expr);* $(;)?) => {
        $( pub mod $m { use super::*; harness!(f_bucket, c_bucket::<$ty, _>, unwind $u); } )*
        pub fn replay(path: &str, s: &mut crate::verif::src::RSrc) -> bool {
            $( if path == concat!(stringify!($m), "::f_bucket") { c_bucket::<$ty, _>(s); return true; } )*
            if path == "f_count_filter" { c_count_filter(s); return true; }
            if path == "f_remove_censored_3" { c_remove_censored_3(s); return true; }
            if path == "f_remove_censored_sharded" { c_remove_censored_sharded(s); return true; }
            if path == "f_count_filter_set" { c_count_filter_set(s); return true; }
            if path == "f_count_filter_set_2" { c_count_filter_set_2(s); return true; }
            false
        }
    };
}

bucket_suite!(
    kmer64: Kmer64, 67; kmer48: Kmer48, 51; kmer40: Kmer40, 43; kmer32: Kmer32, 35;
    kmer31: VarIntKmer<u64, K31>, 34; kmer30: Kmer30, 33; kmer24: Kmer24, 27; kmer20: Kmer20, 23;
    kmer16: Kmer16, 19; kmer15: Kmer15, 18; kmer14: Kmer14, 17; kmer12: Kmer12, 15; kmer10: Kmer10, 13;
    kmer8: Kmer8, 11; kmer6: Kmer6, 9; kmer5: Kmer5, 8; kmer4: Kmer4, 7;
);

harness!(f_count_filter, c_count_filter, unwind 8);
harness!(f_count_filter_set, c_count_filter_set, unwind 8);
harness!(f_count_filter_set_2, c_count_filter_set_2, unwind 6);
