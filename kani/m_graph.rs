// contracts needing private items of src/graph.rs
