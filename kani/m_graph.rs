// Kani bounded stand-ins for src/graph.rs (private fields of NodeKmer/NodeKmerIter reachable here).
// Paired counterexample harness for the unbounded Verus contract of NodeKmerIter::{next, nth}.

use super::*;
use crate::kmer::Kmer4;
use crate::verif::kmers::lane as klane;
use crate::verif::src::Src;
use crate::verif::{chk, harness};
use std::marker::PhantomData;

fn raw_lane(w: u64, j: usize) -> u8 {
    ((w >> (62 - 2 * j)) & 3) as u8
}

/// BOUNDED: node = first 9 bases of a 21-base string (6 4-mers, followed by a neighbouring node's
/// bases), any sequence of 3 calls next()/nth(n), n <= 9. Iterator::nth semantics: skip n, return the
/// next item; None - and exhausted for good - when fewer than n+1 items remain.
pub fn c_node_iter_seq<S: Src>(s: &mut S) {
    let w = s.u64();
    s.assume(w & ((1u64 << 22) - 1) == 0);
    let dna = crate::dna_string::verif::mk_dna(vec![w], 21);
    let nk: NodeKmer<Kmer4, ()> = NodeKmer {
        node_id: 0,
        node_seq_slice: dna.slice(0, 9),
        phantom_k: PhantomData,
        phantom_d: PhantomData,
    };
    let mut it = nk.into_iter();
    let sh = it.size_hint();
    chk!(s, sh.0 == 6 && sh.1 == Some(6), "size_hint reports the exact number of k-mers up front");
    let mut idx = 0usize;
    let mut step = 0;
    while step < 3 {
        let use_nth = s.bool();
        let n = s.usize();
        s.assume(n <= 9);
        let skip = if use_nth { n } else { 0 };
        let r = if use_nth { it.nth(n) } else { it.next() };
        if idx + skip < 6 {
            match r {
                Some(k) => {
                    let mut j = 0;
                    while j < 4 {
                        chk!(s, klane(&k, j) == raw_lane(w, idx + skip + j), "next/nth yields the node's k-mer at the expected offset");
                        j += 1;
                    }
                }
                None => chk!(s, false, "next/nth returned None although items remain"),
            }
            idx += skip + 1;
        } else {
            chk!(s, r.is_none(), "next/nth past the last k-mer returns None (never a neighbour's k-mer)");
            idx = 6;
        }
        step += 1;
    }
    s.cover(idx == 6);
}

harness!(g_node_iter_seq, c_node_iter_seq, unwind 12);

/// NATIVE REPLAY ONLY: build the unstranded Kmer5 graph of TWO reads (each <= 16 bases, from the value source), export it with
/// to_json_rest and check that the output parses as JSON (serde_json) - the concrete witness of verus:jsonlinks::json_links_step.
pub fn c_json_links_reads<S: Src>(s: &mut S) {
    use crate::compression::{compress_kmers_with_hash, SimpleCompress};
    use crate::dna_string::DnaString;
    use crate::filter::{filter_kmers, CountFilter};
    use crate::kmer::Kmer5;
    let mut seqs = Vec::new();
    let mut r = 0;
    while r < 2 {
        let n = s.usize();
        s.assume(n >= 5 && n <= 16);
        let mut read = DnaString::new();
        let mut i = 0;
        while i < n {
            let b = s.u8();
            s.assume(b < 4);
            read.push(b);
            i += 1;
        }
        seqs.push((read, Exts::empty(), 0u8));
        r += 1;
    }
    let summarizer: Box<CountFilter> = Box::new(CountFilter::new(1));
    let (index, _) = filter_kmers::<Kmer5, _, _, _, _>(&seqs, &summarizer, false, false, 4);
    let spec = SimpleCompress::new(|a: u16, b: &u16| a.saturating_add(*b));
    let graph = compress_kmers_with_hash(false, &spec, &index).finish_serial();
    let mut out: Vec<u8> = Vec::new();
    graph.to_json_rest(|d: &u16| serde_json::json!(*d), &mut out, None);
    let text = String::from_utf8(out).unwrap();
    chk!(s, serde_json::from_str::<serde_json::Value>(&text).is_ok(), "JSON export: the output does not parse as JSON");
}

/// NATIVE REPLAY ONLY (no Kani harness: boomphf's MPHF construction is intractable for CBMC): build the unstranded Kmer5 graph of
/// ONE read (<= 16 bases, taken from the value source), export it as GFA, and check the link clause of C20 on the real code:
/// every adjacency the graph reports (an edge of some node side) is listed by at least one L line, in either direction.
/// It is the concrete witness of the Verus obligation verus:gfalinks::gfa_links.
pub fn c_gfa_links_read<S: Src>(s: &mut S) {
    use crate::compression::{compress_kmers_with_hash, SimpleCompress};
    use crate::dna_string::DnaString;
    use crate::filter::{filter_kmers, CountFilter};
    use crate::kmer::Kmer5;
    let n = s.usize();
    s.assume(n >= 5 && n <= 16);
    let mut read = DnaString::new();
    let mut i = 0;
    while i < n {
        let b = s.u8();
        s.assume(b < 4);
        read.push(b);
        i += 1;
    }
    let seqs = vec![(read, Exts::empty(), 0u8)];
    let summarizer: Box<CountFilter> = Box::new(CountFilter::new(1));
    let (index, _) = filter_kmers::<Kmer5, _, _, _, _>(&seqs, &summarizer, false, false, 4);
    let spec = SimpleCompress::new(|a: u16, b: &u16| a.saturating_add(*b));
    let graph = compress_kmers_with_hash(false, &spec, &index).finish_serial();
    let mut out: Vec<u8> = Vec::new();
    graph.write_gfa(&mut out).unwrap();
    let text = String::from_utf8(out).unwrap();
    // L lines as (from, from_sign, to, to_sign)
    let mut links: Vec<(usize, bool, usize, bool)> = Vec::new();
    for l in text.lines() {
        let f: Vec<&str> = l.split('\t').collect();
        if f.len() >= 5 && f[0] == "L" {
            links.push((f[1].parse().unwrap(), f[2] == "+", f[3].parse().unwrap(), f[4] == "+"));
        }
    }
    let mut u = 0;
    while u < graph.len() {
        let node = graph.get_node(u);
        for side_right in [false, true] {
            let edges = if side_right { node.r_edges() } else { node.l_edges() };
            for (v, arrive, _) in edges {
                let arrive_left = match arrive { Dir::Left => true, Dir::Right => false };
                // "L u s v t": leaves u through its right end iff s is '+', arrives at v's left end iff t is '+';
                // the same adjacency read from the other end is "L v !t u !s"
                let listed = links.iter().any(|&(a, sa, b, sb)| {
                    (a == u && sa == side_right && b == v && sb == arrive_left) || (a == v && sa == !arrive_left && b == u && sb == !side_right)
                });
                chk!(s, listed, "GFA export: an adjacency reported by the graph (edge of a node side) has no L line");
            }
        }
        u += 1;
    }
}

/// NATIVE ONLY (enumerated fallback of Verus unit gfalinks): the unstranded Kmer16 graph of ONE pseudo-random read of 300 bases
/// (generated from the drawn seed, so nodes of 256 bases and more occur), exported as GFA: every node has exactly one S line, with its
/// id and its sequence as ACGT text of the node's length (C20: "lists every node once with its sequence").
pub fn c_gfa_export_long<S: Src>(s: &mut S) {
    use crate::compression::{compress_kmers_with_hash, SimpleCompress};
    use crate::dna_string::DnaString;
    use crate::filter::{filter_kmers, CountFilter};
    use crate::kmer::Kmer16;
    let seed = s.u8();
    let mut x: u64 = 0x9E37_79B9_7F4A_7C15 ^ ((seed as u64) << 7);
    let mut read = DnaString::new();
    let mut i = 0;
    while i < 300 {
        x ^= x << 13;
        x ^= x >> 7;
        x ^= x << 17;
        read.push((x & 3) as u8);
        i += 1;
    }
    let seqs = vec![(read, Exts::empty(), 0u8)];
    let summarizer: Box<CountFilter> = Box::new(CountFilter::new(1));
    let (index, _) = filter_kmers::<Kmer16, _, _, _, _>(&seqs, &summarizer, false, false, 4);
    let spec = SimpleCompress::new(|a: u16, b: &u16| a.saturating_add(*b));
    let graph = compress_kmers_with_hash(false, &spec, &index).finish_serial();
    let mut out: Vec<u8> = Vec::new();
    graph.write_gfa(&mut out).unwrap();
    let text = String::from_utf8(out).unwrap();
    let mut u = 0;
    while u < graph.len() {
        let node = graph.get_node(u);
        let want = node.sequence().to_dna_string();
        let mut n_lines = 0;
        let mut ok = false;
        for l in text.lines() {
            let f: Vec<&str> = l.split('\t').collect();
            if f.len() >= 3 && f[0] == "S" && f[1].parse::<usize>().ok() == Some(u) {
                n_lines += 1;
                ok = f[2] == want && f[2].len() == node.len();
            }
        }
        chk!(s, n_lines == 1 && ok, "GFA export: node has exactly one S line carrying its id and its sequence as ACGT text");
        u += 1;
    }
}

pub fn replay(name: &str, s: &mut crate::verif::src::RSrc) -> bool {
    match name {
        "g_node_iter_seq" => c_node_iter_seq(s),
        "g_gfa_links_read" => c_gfa_links_read(s),
        "g_gfa_export_long" => c_gfa_export_long(s),
        "g_json_links_reads" => c_json_links_reads(s),
        _ => return false,
    }
    true
}
