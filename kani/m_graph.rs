// Kani bounded stand-ins for src/graph.rs (private fields of NodeKmer/NodeKmerIter reachable here).
// Paired counterexample harness for the unbounded Verus contract of NodeKmerIter::{next, nth}.

use super::*;
use crate::kmer::Kmer4;
use crate::verif::kmers::lane as klane;
use crate::verif::src::Src;
use crate::verif::{chk, harness};
use std::marker::PhantomData;

fn raw_lane(w: u64, j: usize) -> u8 {
    ((w >> (62 - 2 * j)) & 3) as u8
}

/// BOUNDED: node = first 9 bases of a 21-base string (6 4-mers, followed by a neighbouring node's
/// bases), any sequence of 3 calls next()/nth(n), n <= 9. Iterator::nth semantics: skip n, return the
/// next item; None - and exhausted for good - when fewer than n+1 items remain.
pub fn c_node_iter_seq<S: Src>(s: &mut S) {
    let w = s.u64();
    s.assume(w & ((1u64 << 22) - 1) == 0);
    let dna = crate::dna_string::verif::mk_dna(vec![w], 21);
    let nk: NodeKmer<Kmer4, ()> = NodeKmer {
        node_id: 0,
        node_seq_slice: dna.slice(0, 9),
        phantom_k: PhantomData,
        phantom_d: PhantomData,
    };
    let mut it = nk.into_iter();
    let sh = it.size_hint();
    chk!(s, sh.0 == 6 && sh.1 == Some(6), "size_hint reports the exact number of k-mers up front");
    let mut idx = 0usize;
    let mut step = 0;
    while step < 3 {
        let use_nth = s.bool();
        let n = s.usize();
        s.assume(n <= 9);
        let skip = if use_nth { n } else { 0 };
        let r = if use_nth { it.nth(n) } else { it.next() };
        if idx + skip < 6 {
            match r {
                Some(k) => {
                    let mut j = 0;
                    while j < 4 {
                        chk!(s, klane(&k, j) == raw_lane(w, idx + skip + j), "next/nth yields the node's k-mer at the expected offset");
                        j += 1;
                    }
                }
                None => chk!(s, false, "next/nth returned None although items remain"),
            }
            idx += skip + 1;
        } else {
            chk!(s, r.is_none(), "next/nth past the last k-mer returns None (never a neighbour's k-mer)");
            idx = 6;
        }
        step += 1;
    }
    s.cover(idx == 6);
}

harness!(g_node_iter_seq, c_node_iter_seq, unwind 12);

pub fn replay(name: &str, s: &mut crate::verif::src::RSrc) -> bool {
    match name {
        "g_node_iter_seq" => c_node_iter_seq(s),
        _ => return false,
    }
    true
}
