// Kani BOUNDED stand-in for src/msp.rs `Scanner::scan` (the minimizer partition, C07) and
// `msp_sequence` (C08). Bounds are stated per harness; none of this is counted as proved.

use super::*;
use crate::kmer::{Kmer2, Kmer3};
use crate::verif::src::Src;
use crate::verif::{chk, harness};
use crate::Mer;

/// score of the p-mer starting at q, straight from the bases (spec side)
fn pmer_rank(seq: &[u8], q: usize, p: usize) -> usize {
    let mut r = 0usize;
    let mut j = 0;
    while j < p {
        r = r * 4 + seq[q + j] as usize;
        j += 1;
    }
    r
}

/// All clauses of C07 on the real `scan`, P = Kmer2, (k, m) fixed per harness, symbolic bases and a
/// symbolic score table with values in 0..3 (so heavily tied and constant scores are included).
pub fn c_scan_p2<S: Src, const KC: usize, const MC: usize>(s: &mut S) {
    const P: usize = 2;
    // k and m are fixed per instantiation (symbolic k/m exhaust CBMC's memory); bases and scores symbolic
    let k = KC;
    let m = MC;
    let mut seq = [0u8; 8];
    let mut i = 0;
    while i < 8 {
        seq[i] = s.u8();
        s.assume(seq[i] < 4);
        i += 1;
    }
    let mut table = [0usize; 16];
    let mut t = 0;
    while t < 16 {
        let v = s.u8();
        s.assume(v < 3);
        // scores may exceed 32 bits (a hashed order): two of the three values live above 2^32
        table[t] = if v == 0 { 7 } else { ((v as usize) << 32) | 7 };
        t += 1;
    }
    s.cover(true);
    let dna = DnaSlice(&seq[..m]);
    let score = |pm: &Kmer2| table[pm.to_u64() as usize];
    let res = Scanner::new(&dna, score, k).scan();
    let n = res.len();
    chk!(s, n >= 1 && n <= m - k + 1, "scan returns between 1 and m-k+1 intervals");
    chk!(s, res[0].start == 0, "first interval starts at 0");
    let mut j = 0;
    while j < n {
        let st = res[j].start as usize;
        let len = res[j].len as usize;
        let mp = res[j].minimizer_pos as usize;
        chk!(s, len >= k && len <= 2 * k - P, "interval length is between k and 2k-p");
        chk!(s, st + len <= m, "interval lies inside the sequence");
        if j + 1 < n {
            let nst = res[j + 1].start as usize;
            chk!(s, nst > st, "interval starts strictly increase");
            chk!(s, nst == st + len - (k - 1), "consecutive intervals overlap by exactly k-1 bases");
        } else {
            chk!(s, st + len == m, "the last interval ends at the end of the sequence");
        }
        // minimizer is the p-mer at the reported position
        chk!(s, mp + P <= m, "minimizer position inside the sequence");
        chk!(s, res[j].minimizer.get(0) == seq[mp] && res[j].minimizer.get(1) == seq[mp + 1],
             "the reported minimizer is the p-mer at the reported position");
        // inside every k-mer of the interval: first k-mer starts at st, last at st+len-k
        chk!(s, mp >= st + len - k && mp + P <= st + k, "the minimizer lies inside every k-mer of the interval");
        // minimum score among all p-mers of the interval
        let msc = table[pmer_rank(&seq, mp, P)];
        let mut q = st;
        while q + P <= st + len {
            chk!(s, msc <= table[pmer_rank(&seq, q, P)], "the minimizer has the minimum score among the interval's p-mers");
            q += 1;
        }
        // maximality: the interval ends only if the next k-mer lost the minimizer or brings a strictly better p-mer
        if j + 1 < n {
            let nst = res[j + 1].start as usize;
            let newp = nst + k - P;
            chk!(s, nst > mp || table[pmer_rank(&seq, newp, P)] < msc,
                 "an interval ends only when the next k-mer loses the minimizer or brings a strictly better p-mer");
        }
        j += 1;
    }
}

/// BOUNDED (read of exactly 6 bases, k = 3, P = Kmer2, pieces as DnaBytes, default permutation, rc mode symbolic):
/// msp_sequence - every piece is the exact substring of the read, its boundary extensions are exactly the
/// read's flanking bases (none at a read end), and consecutive pieces cover the read with k-1 overlap.
pub fn c_msp_sequence_6<S: Src>(s: &mut S) {
    let mut seq = [0u8; 6];
    let mut i = 0;
    while i < 6 {
        seq[i] = s.u8();
        s.assume(seq[i] < 4);
        i += 1;
    }
    let rc = s.bool();
    s.cover(true);
    let k = 3usize;
    let pieces = msp_sequence::<Kmer2, crate::DnaBytes>(k, &seq, None, rc);
    chk!(s, pieces.len() >= 1 && pieces.len() <= 4, "between 1 and m-k+1 pieces");
    let mut start = 0usize;
    let mut j = 0;
    while j < pieces.len() {
        let (bucket, exts, ref v) = pieces[j];
        let len = v.0.len();
        chk!(s, len >= k && start + len <= 6, "piece lies inside the read");
        let mut t = 0;
        while t < len {
            chk!(s, v.0[t] == seq[start + t], "a piece is the exact substring of the read it came from");
            t += 1;
        }
        let mut b = 0u8;
        while b < 4 {
            chk!(s, crate::verif::exts::has(exts.val, false, b) == (start > 0 && seq[start - 1] == b), "left extension is exactly the base before the piece (none at the read start)");
            chk!(s, crate::verif::exts::has(exts.val, true, b) == (start + len < 6 && seq[start + len] == b), "right extension is exactly the base after the piece (none at the read end)");
            b += 1;
        }
        chk!(s, bucket < 16, "bucket id is a canonical p-mer rank");
        if j + 1 < pieces.len() {
            start = start + len - (k - 1);
        } else {
            chk!(s, start + len == 6, "the last piece ends at the end of the read");
        }
        j += 1;
    }
}

/// BOUNDED (reads of exactly k = 3 and k + 1 = 4 bases, P = Kmer2, pieces as DnaBytes): msp_sequence emits every k-mer
/// of the read - a read of exactly k bases yields one piece, the read itself, with no boundary extensions.
pub fn c_msp_sequence_short<S: Src>(s: &mut S) {
    let mut seq = [0u8; 4];
    let mut i = 0;
    while i < 4 {
        seq[i] = s.u8();
        s.assume(seq[i] < 4);
        i += 1;
    }
    let rc = s.bool();
    s.cover(true);
    let one = msp_sequence::<Kmer2, crate::DnaBytes>(3, &seq[..3], None, rc);
    chk!(s, one.len() == 1, "a read of exactly k bases is emitted as one piece");
    if one.len() == 1 {
        chk!(s, one[0].2 .0.len() == 3 && one[0].2 .0[0] == seq[0] && one[0].2 .0[1] == seq[1] && one[0].2 .0[2] == seq[2],
             "the piece is the read itself");
        chk!(s, one[0].1.val == 0, "no boundary extension at a read end");
    }
    let none = msp_sequence::<Kmer2, crate::DnaBytes>(3, &seq[..2], None, rc);
    chk!(s, none.len() == 0, "a read shorter than k yields nothing");
}

harness!(m_msp_sequence_short, c_msp_sequence_short, unwind 20);
harness!(m_msp_sequence_6, c_msp_sequence_6, unwind 20);
harness!(m_scan_p2_k2m5, c_scan_p2::<_, 2, 5>, unwind 18);
// k = 3, m = 6 (the smallest case with a real choice of minimizer) exhausts 62 GB in CBMC 6.11: not registered.

/// complete (all pairs of scores and positions, loop-free): the ordering of MinPos that `find_min` relies on is
/// decided by the full-width score; ties may be broken either way. Also the std `min` of two MinPos values.
pub fn c_minpos_order<S: Src>(s: &mut S) {
    let a = MinPos { val: s.usize(), pos: s.usize(), kmer: Kmer2::empty() };
    let b = MinPos { val: s.usize(), pos: s.usize(), kmer: Kmer2::empty() };
    s.cover(a.val > 0xffff_ffff && b.val > 0xffff_ffff && a.val != b.val);
    let c = a.cmp(&b);
    chk!(s, !(a.val < b.val) || c == Ordering::Less, "MinPos::cmp: a smaller score is Less (full-width comparison)");
    chk!(s, !(a.val > b.val) || c == Ordering::Greater, "MinPos::cmp: a larger score is Greater (full-width comparison)");
    // (agreement of partial_cmp with cmp on ties is NOT checked: the statement of C07 does not depend on it -
    //  the self-test edit that reverses only Ord's tie direction must stay green)
    let pc = a.partial_cmp(&b);
    chk!(s, !(a.val < b.val) || pc == Some(Ordering::Less), "MinPos::partial_cmp: a smaller score is Less");
    chk!(s, !(a.val > b.val) || pc == Some(Ordering::Greater), "MinPos::partial_cmp: a larger score is Greater");
    let m = min(a, b);
    chk!(s, m.val <= a.val && m.val <= b.val, "min of two MinPos has the smaller score");
    chk!(s, (m.val == a.val && m.pos == a.pos) || (m.val == b.val && m.pos == b.pos), "min returns one of its arguments");
}

harness!(m_minpos_order, c_minpos_order);

pub fn replay(name: &str, s: &mut crate::verif::src::RSrc) -> bool {
    match name {
        "m_msp_sequence_short" => c_msp_sequence_short(s),
        "m_msp_sequence_6" => c_msp_sequence_6(s),
        "m_scan_p2_k2m5" => c_scan_p2::<_, 2, 5>(s),
        "m_minpos_order" => c_minpos_order(s),
        _ => return false,
    }
    true
}
