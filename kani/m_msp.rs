// contracts needing private items of src/msp.rs
