// Contracts for `Lmer<[u64; N]>` (src/vmer.rs): fixed-size DNA strings. Storage fully symbolic
// under `wf`; loops are bounded by N (rc), 3 (get_kmer) and 8N bytes (array ==), so each harness is
// a complete proof for its capacity N.
//
//   raw_lane(l, j)  = (storage[j/32] >> (62 - 2*(j%32))) & 3       j < 32N  (the last 4 hold the length byte)
//   len(l)          = storage[N-1] & 0xff
//   wf(l)           = len <= 32N-4  and every raw lane in len..32N-4 is zero

use super::*;
use crate::kmer::*;
use crate::verif::kmers::{inv as kinv, lane as klane, RecHasher, KV};
use crate::verif::src::Src;
use crate::verif::{chk, harness};
use std::hash::{Hash, Hasher};

pub trait LV: Vmer + Copy + Hash {
    const N: usize;
    fn words(&self) -> [u64; 6];
    fn from_words(w: [u64; 6]) -> Self;
}

macro_rules! lv {
    ($n:expr) => {
        impl LV for Lmer<[u64; $n]> {
            const N: usize = $n;
            fn words(&self) -> [u64; 6] {
                let mut w = [0u64; 6];
                let mut i = 0;
                while i < $n {
                    w[i] = self.storage[i];
                    i += 1;
                }
                w
            }
            fn from_words(w: [u64; 6]) -> Self {
                let mut a = [0u64; $n];
                let mut i = 0;
                while i < $n {
                    a[i] = w[i];
                    i += 1;
                }
                Lmer { storage: a }
            }
        }
    };
}
lv!(1);
lv!(2);
lv!(3);
lv!(4);
lv!(5);
lv!(6);

pub fn raw_lane(w: &[u64; 6], j: usize) -> u8 {
    ((w[j / 32] >> (62 - 2 * (j % 32))) & 3) as u8
}

pub fn spec_len<L: LV>(w: &[u64; 6]) -> usize {
    (w[L::N - 1] & 0xff) as usize
}

pub fn spec_max_len<L: LV>() -> usize {
    32 * L::N - 4
}

/// every raw lane in len..32N-4 is zero, stated word-wise (no loop over lanes)
pub fn wf<L: LV>(w: &[u64; 6]) -> bool {
    let len = spec_len::<L>(w);
    if len > spec_max_len::<L>() {
        return false;
    }
    let mut ok = true;
    let mut b = 0;
    while b < L::N {
        let lo = b * 32; // first lane of this word
        // lanes of this word that must be zero: max(len, lo) .. min(lo+32, 32N-4)
        let word = if b == L::N - 1 { w[b] & !0xffu64 } else { w[b] };
        if len <= lo {
            if word != 0 {
                ok = false;
            }
        } else if len < lo + 32 {
            let used = len - lo; // 1..31 lanes used at the top
            if (word << (2 * used)) != 0 {
                ok = false;
            }
        }
        b += 1;
    }
    ok
}

pub fn any_lmer<L: LV, S: Src>(s: &mut S) -> L {
    let mut w = [0u64; 6];
    let mut i = 0;
    while i < L::N {
        w[i] = s.u64();
        i += 1;
    }
    s.assume(wf::<L>(&w));
    L::from_words(w)
}

pub fn c_new<L: LV, S: Src>(s: &mut S) {
    let len = s.usize();
    s.assume(len <= spec_max_len::<L>());
    s.cover(len == spec_max_len::<L>());
    chk!(s, L::max_len() == spec_max_len::<L>(), "max_len() == 32N-4");
    let l = L::new(len);
    let w = l.words();
    chk!(s, l.len() == len, "new(len) reports len");
    chk!(s, l.is_empty() == (len == 0), "is_empty iff len == 0");
    chk!(s, wf::<L>(&w), "new(len) is well formed (padding zero)");
    let j = s.usize();
    s.assume(j < len);
    chk!(s, raw_lane(&w, j) == 0, "new(len) is all A");
}

pub fn c_get<L: LV, S: Src>(s: &mut S) {
    let l: L = any_lmer(s);
    let w = l.words();
    let pos = s.usize();
    s.assume(pos < spec_len::<L>(&w));
    s.cover(pos >= 32 || L::N == 1);
    chk!(s, l.len() == spec_len::<L>(&w), "len() is the stored length");
    chk!(s, l.get(pos) == raw_lane(&w, pos), "get(pos) is base pos");
}

pub fn c_set_mut<L: LV, S: Src>(s: &mut S) {
    let l: L = any_lmer(s);
    let w = l.words();
    let pos = s.usize();
    let v = s.u8();
    let j = s.usize();
    s.assume(pos < spec_len::<L>(&w) && v < 4 && j < 32 * L::N);
    s.cover(pos == spec_len::<L>(&w) - 1);
    let mut m = l;
    m.set_mut(pos, v);
    let w2 = m.words();
    let expect = if j == pos { v } else { raw_lane(&w, j) };
    chk!(s, raw_lane(&w2, j) == expect, "set_mut changes base pos only (no other base, not the length byte)");
    chk!(s, spec_len::<L>(&w2) == spec_len::<L>(&w), "set_mut keeps the stored length");
    chk!(s, wf::<L>(&w2), "set_mut keeps the value well formed");
}

pub fn c_set_slice_mut<L: LV, S: Src>(s: &mut S) {
    let l: L = any_lmer(s);
    let w = l.words();
    let len = spec_len::<L>(&w);
    let pos = s.usize();
    let n = s.usize();
    let val = s.u64();
    let j = s.usize();
    s.assume(n >= 1 && n <= 32 && pos <= len && n <= len - pos && j < 32 * L::N);
    s.cover(L::N == 1 || (pos < 32 && pos + n > 32));
    s.cover(pos + n == spec_max_len::<L>());
    let mut m = l;
    m.set_slice_mut(pos, n, val);
    let w2 = m.words();
    let expect = if j >= pos && j < pos + n {
        ((val >> (62 - 2 * (j - pos))) & 3) as u8
    } else {
        raw_lane(&w, j)
    };
    chk!(
        s,
        raw_lane(&w2, j) == expect,
        "set_slice_mut writes exactly bases pos..pos+n (no other base, not the length byte)"
    );
    chk!(s, spec_len::<L>(&w2) == len, "set_slice_mut keeps the stored length");
    chk!(s, wf::<L>(&w2), "set_slice_mut keeps the value well formed");
}

pub fn c_rc<L: LV, S: Src>(s: &mut S) {
    let l: L = any_lmer(s);
    let w = l.words();
    let len = spec_len::<L>(&w);
    let j = s.usize();
    s.assume(j < len);
    s.cover(len > 32 || L::N == 1);
    let r = l.rc();
    let w2 = r.words();
    chk!(s, spec_len::<L>(&w2) == len, "rc keeps the length");
    chk!(s, raw_lane(&w2, j) == 3 - raw_lane(&w, len - 1 - j), "rc: position i <-> n-1-i, base b -> 3-b");
    chk!(s, wf::<L>(&w2), "rc result is well formed");
}

pub fn c_rc_empty<L: LV, S: Src>(s: &mut S) {
    // length 0 has no symbolic position; checked separately, plus the involution
    let l: L = any_lmer(s);
    let w = l.words();
    s.cover(spec_len::<L>(&w) == 0);
    s.cover(spec_len::<L>(&w) == spec_max_len::<L>());
    let r = l.rc();
    let w2 = r.words();
    chk!(s, spec_len::<L>(&w2) == spec_len::<L>(&w), "rc keeps the length (incl. 0)");
    chk!(s, wf::<L>(&w2), "rc result is well formed (incl. length 0)");
    let rr = r.rc();
    let w3 = rr.words();
    let mut same = true;
    let mut i = 0;
    while i < L::N {
        if w3[i] != w[i] {
            same = false;
        }
        i += 1;
    }
    chk!(s, same, "rc is an involution");
}

pub fn c_eq_hash<L: LV, S: Src>(s: &mut S) {
    let a: L = any_lmer(s);
    let b: L = any_lmer(s);
    let wa = a.words();
    let wb = b.words();
    // string equality: same length and same bases (stated on the words via wf: padding is zero)
    let la = spec_len::<L>(&wa);
    let lb = spec_len::<L>(&wb);
    let j = s.usize();
    s.assume(j < la);
    s.cover(la == lb);
    let eq = a == b;
    if eq {
        chk!(s, la == lb, "== implies equal length");
        chk!(s, raw_lane(&wa, j) == raw_lane(&wb, j), "== implies equal bases");
    }
    // converse: equal strings (all words equal given wf) compare and hash equal
    let mut same = true;
    let mut i = 0;
    while i < L::N {
        if wa[i] != wb[i] {
            same = false;
        }
        i += 1;
    }
    chk!(s, eq == same, "== holds exactly when length and all bases agree (padding is zero by wf)");
    if same {
        let mut ha = RecHasher::new();
        let mut hb = RecHasher::new();
        a.hash(&mut ha);
        b.hash(&mut hb);
        chk!(s, ha.n <= 64, "hash stream recorded completely");
        chk!(s, ha.n == hb.n && ha.buf == hb.buf, "equal strings feed the same bytes to any Hasher");
    }
}

/// wf-equal-strings lemma: two wf values with the same length and the same bases have identical words
/// (so `same` above is string equality). Checked lane-wise with a symbolic raw lane.
pub fn c_wf_canonical<L: LV, S: Src>(s: &mut S) {
    let a: L = any_lmer(s);
    let wa = a.words();
    let j = s.usize();
    s.assume(j < spec_max_len::<L>());
    s.cover(j >= spec_len::<L>(&wa));
    if j >= spec_len::<L>(&wa) {
        chk!(s, raw_lane(&wa, j) == 0, "wf: every padding lane is zero");
    }
}

pub fn c_get_kmer<L: LV, K: KV, S: Src>(s: &mut S) {
    let l: L = any_lmer(s);
    let w = l.words();
    let len = spec_len::<L>(&w);
    let pos = s.usize();
    let j = s.usize();
    s.assume(K::KK <= len && pos <= len - K::KK && j < K::KK);
    s.cover(L::N == 1 || (pos % 32) + K::KK > 32);
    let k: K = l.get_kmer(pos);
    chk!(s, klane(&k, j) == raw_lane(&w, pos + j), "get_kmer(pos): base j is base pos+j of the string");
    chk!(s, kinv(&k), "get_kmer result keeps unused storage bits zero");
}

pub fn c_from_slice<L: LV, S: Src>(s: &mut S) {
    // Vmer::from_slice default body on Lmer, slice length symbolic up to 12 (bounded stand-in)
    let mut buf = [0u8; 12];
    let mut i = 0;
    while i < 12 {
        buf[i] = s.u8();
        s.assume(buf[i] < 4);
        i += 1;
    }
    let n = s.usize();
    s.assume(n <= 12);
    let j = s.usize();
    s.assume(j < n);
    s.cover(n == 12);
    let l = L::from_slice(&buf[..n]);
    let w = l.words();
    chk!(s, spec_len::<L>(&w) == n, "from_slice: length of the slice");
    chk!(s, raw_lane(&w, j) == buf[j], "from_slice: base j is byte j");
    chk!(s, wf::<L>(&w), "from_slice result is well formed");
}

pub fn c_block<S: Src>(s: &mut S) {
    let k = s.u64();
    let pos = s.usize();
    let v = s.u8();
    let j = s.usize();
    s.assume(pos < 32 && v < 4 && j < 32);
    s.cover(pos == 31);
    let w = [k, 0, 0, 0, 0, 0];
    chk!(s, block_get(k, pos) == raw_lane(&w, pos), "block_get reads lane pos");
    let k2 = block_set(k, pos, v);
    let w2 = [k2, 0, 0, 0, 0, 0];
    chk!(
        s,
        raw_lane(&w2, j) == if j == pos { v } else { raw_lane(&w, j) },
        "block_set writes lane pos only"
    );
}

harness!(l_block, c_block);

macro_rules! lmer_suite {
    ($m:ident, $n:expr, unwind $u:expr) => {
        pub mod $m {
            use super::*;
            type L = Lmer<[u64; $n]>;
            harness!(l_new, c_new::<L, _>, unwind $u);
            harness!(l_get, c_get::<L, _>, unwind $u);
            harness!(l_set_mut, c_set_mut::<L, _>, unwind $u);
            harness!(l_set_slice_mut, c_set_slice_mut::<L, _>, unwind $u);
            harness!(l_rc, c_rc::<L, _>, unwind $u);
            harness!(l_rc_empty, c_rc_empty::<L, _>, unwind $u);
            harness!(l_eq_hash, c_eq_hash::<L, _>, unwind 66);
            harness!(l_wf_canonical, c_wf_canonical::<L, _>, unwind $u);
            harness!(l_from_slice, c_from_slice::<L, _>, unwind 14);
            harness!(l_get_kmer_k64, c_get_kmer::<L, Kmer64, _>, unwind $u);
            harness!(l_get_kmer_k48, c_get_kmer::<L, Kmer48, _>, unwind $u);
            harness!(l_get_kmer_k32, c_get_kmer::<L, Kmer32, _>, unwind $u);
            harness!(l_get_kmer_k31, c_get_kmer::<L, VarIntKmer<u64, K31>, _>, unwind $u);
            harness!(l_get_kmer_k20, c_get_kmer::<L, Kmer20, _>, unwind $u);
            harness!(l_get_kmer_k16, c_get_kmer::<L, Kmer16, _>, unwind $u);
            harness!(l_get_kmer_k15, c_get_kmer::<L, Kmer15, _>, unwind $u);
            harness!(l_get_kmer_k8, c_get_kmer::<L, Kmer8, _>, unwind $u);
            harness!(l_get_kmer_k5, c_get_kmer::<L, Kmer5, _>, unwind $u);
            harness!(l_get_kmer_k4, c_get_kmer::<L, Kmer4, _>, unwind $u);
            harness!(l_get_kmer_k3, c_get_kmer::<L, Kmer3, _>, unwind $u);
            pub fn replay(name: &str, s: &mut crate::verif::src::RSrc) -> bool {
                match name {
                    "l_new" => c_new::<L, _>(s),
                    "l_get" => c_get::<L, _>(s),
                    "l_set_mut" => c_set_mut::<L, _>(s),
                    "l_set_slice_mut" => c_set_slice_mut::<L, _>(s),
                    "l_rc" => c_rc::<L, _>(s),
                    "l_rc_empty" => c_rc_empty::<L, _>(s),
                    "l_eq_hash" => c_eq_hash::<L, _>(s),
                    "l_wf_canonical" => c_wf_canonical::<L, _>(s),
                    "l_from_slice" => c_from_slice::<L, _>(s),
                    "l_get_kmer_k64" => c_get_kmer::<L, Kmer64, _>(s),
                    "l_get_kmer_k48" => c_get_kmer::<L, Kmer48, _>(s),
                    "l_get_kmer_k32" => c_get_kmer::<L, Kmer32, _>(s),
                    "l_get_kmer_k31" => c_get_kmer::<L, VarIntKmer<u64, K31>, _>(s),
                    "l_get_kmer_k20" => c_get_kmer::<L, Kmer20, _>(s),
                    "l_get_kmer_k16" => c_get_kmer::<L, Kmer16, _>(s),
                    "l_get_kmer_k15" => c_get_kmer::<L, Kmer15, _>(s),
                    "l_get_kmer_k8" => c_get_kmer::<L, Kmer8, _>(s),
                    "l_get_kmer_k5" => c_get_kmer::<L, Kmer5, _>(s),
                    "l_get_kmer_k4" => c_get_kmer::<L, Kmer4, _>(s),
                    "l_get_kmer_k3" => c_get_kmer::<L, Kmer3, _>(s),
                    _ => return false,
                }
                true
            }
        }
    };
}

lmer_suite!(lmer1, 1, unwind 10);
lmer_suite!(lmer2, 2, unwind 10);
lmer_suite!(lmer3, 3, unwind 10);
lmer_suite!(lmer4, 4, unwind 10);
lmer_suite!(lmer5, 5, unwind 10);
lmer_suite!(lmer6, 6, unwind 10);

pub fn replay(path: &str, s: &mut crate::verif::src::RSrc) -> bool {
    if path == "l_block" {
        c_block(s);
        return true;
    }
    let (m, name) = match path.find("::") {
        Some(i) => (&path[..i], &path[i + 2..]),
        None => return false,
    };
    match m {
        "lmer1" => lmer1::replay(name, s),
        "lmer2" => lmer2::replay(name, s),
        "lmer3" => lmer3::replay(name, s),
        "lmer4" => lmer4::replay(name, s),
        "lmer5" => lmer5::replay(name, s),
        "lmer6" => lmer6::replay(name, s),
        _ => false,
    }
}
