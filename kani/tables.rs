// Contracts for the byte tables of src/lib.rs: all 256 byte values, loop-free => complete.

use crate::verif::src::Src;

/// Spec (stated independently of the match tables): letter code of an ASCII byte, either case.
pub fn spec_code(c: u8) -> Option<u8> {
    let up = c & 0xDF; // clears the ASCII case bit: only 0x41/0x61 map to 'A', etc.
    if up == 0x41 {
        Some(0)
    } else if up == 0x43 {
        Some(1)
    } else if up == 0x47 {
        Some(2)
    } else if up == 0x54 {
        Some(3)
    } else {
        None
    }
}

pub fn spec_letter(b: u8) -> u8 {
    // "ACGT"[b]
    [0x41u8, 0x43, 0x47, 0x54][b as usize]
}

pub fn c_base_to_bits<S: Src>(s: &mut S) {
    let c = s.u8();
    s.cover(c == b't');
    s.cover(c == 0xff);
    let r = crate::base_to_bits(c);
    match spec_code(c) {
        Some(v) => chk!(s, r == v, "base_to_bits: A/C/G/T either case -> 0/1/2/3"),
        None => chk!(s, r == 0, "base_to_bits: every other byte -> A"),
    }
}

pub fn c_dna_only_base_to_bits<S: Src>(s: &mut S) {
    let c = s.u8();
    s.cover(c == b'g');
    let r = crate::dna_only_base_to_bits(c);
    chk!(s, r == spec_code(c), "dna_only_base_to_bits: Some(code) exactly for ACGT either case");
    chk!(s, crate::is_valid_base(c) == spec_code(c).is_some(), "is_valid_base: exactly ACGT either case");
}

pub fn c_bits_to_ascii<S: Src>(s: &mut S) {
    let b = s.u8();
    s.cover(b == 3);
    let r = crate::bits_to_ascii(b);
    let ch = crate::bits_to_base(b);
    if b < 4 {
        chk!(s, r == spec_letter(b), "bits_to_ascii: 0..3 -> ACGT");
        chk!(s, ch as u32 == spec_letter(b) as u32, "bits_to_base: 0..3 -> ACGT");
        chk!(s, crate::base_to_bits(r) == b, "ascii round trip");
    } else {
        chk!(s, r == b'X', "bits_to_ascii: out of range -> X");
        chk!(s, ch == 'X', "bits_to_base: out of range -> X");
    }
}

pub fn c_complement<S: Src>(s: &mut S) {
    let b = s.u8();
    s.assume(b < 4);
    s.cover(b == 2);
    chk!(s, crate::complement(b) == 3 - b, "complement(b) == 3 - b");
}

harness!(t_base_to_bits, c_base_to_bits);
harness!(t_dna_only_base_to_bits, c_dna_only_base_to_bits);
harness!(t_bits_to_ascii, c_bits_to_ascii);
harness!(t_complement, c_complement);

replay_table!(
    t_base_to_bits => c_base_to_bits,
    t_dna_only_base_to_bits => c_dna_only_base_to_bits,
    t_bits_to_ascii => c_bits_to_ascii,
    t_complement => c_complement,
);
