// In-crate contract / harness module for rust-debruijn.
//
// Compiled *inside* the `debruijn` crate (so it can name private items) through the guarded
// hook in src/lib.rs:   #[cfg(any(kani, debruijn_verif))] pub mod verif { include!(...) }
//
// Every contract is a generic *contract function*  `fn c_xxx<S: Src>(s: &mut S)`:
//   draw inputs from `s`, assume the precondition, call the REAL function, check the postcondition
// which is literally what `#[kani::proof_for_contract]` expands to.  The same function is run
//   * by Kani with `KSrc` (every draw is `kani::any()`)               -> proof
//   * natively with `RSrc` (draws come from a recorded counterexample) -> replay on the real code
//
// Spec functions (`lane`, `has`, ...) never call the function under test.

pub mod src {
    /// Source of input values for a contract function.
    pub trait Src {
        fn u8(&mut self) -> u8;
        fn u16(&mut self) -> u16;
        fn u32(&mut self) -> u32;
        fn u64(&mut self) -> u64;
        fn u128(&mut self) -> u128;
        fn usize(&mut self) -> usize;
        fn bool(&mut self) -> bool;
        /// precondition
        fn assume(&mut self, c: bool);
        /// postcondition / obligation
        fn check(&mut self, c: bool, msg: &'static str);
        /// reachability witness (vacuity guard)
        fn cover(&mut self, c: bool);
    }

    #[cfg(kani)]
    pub struct KSrc;

    #[cfg(kani)]
    impl Src for KSrc {
        fn u8(&mut self) -> u8 {
            kani::any()
        }
        fn u16(&mut self) -> u16 {
            kani::any()
        }
        fn u32(&mut self) -> u32 {
            kani::any()
        }
        fn u64(&mut self) -> u64 {
            kani::any()
        }
        fn u128(&mut self) -> u128 {
            kani::any()
        }
        fn usize(&mut self) -> usize {
            kani::any()
        }
        fn bool(&mut self) -> bool {
            kani::any()
        }
        fn assume(&mut self, c: bool) {
            kani::assume(c)
        }
        fn check(&mut self, c: bool, _msg: &'static str) {
            // not used under Kani: `chk!` expands to kani::assert with a literal message
            assert!(c)
        }
        fn cover(&mut self, c: bool) {
            kani::cover!(c, "precondition reachable")
        }
    }

    /// Replays a recorded counterexample (one little-endian byte vector per draw, in draw order).
    pub struct RSrc {
        pub vals: Vec<Vec<u8>>,
        pub idx: usize,
        pub assumption_failed: bool,
        pub failed: Vec<&'static str>,
    }

    impl RSrc {
        pub fn new(vals: Vec<Vec<u8>>) -> RSrc {
            RSrc {
                vals,
                idx: 0,
                assumption_failed: false,
                failed: Vec::new(),
            }
        }
        fn next(&mut self, n: usize) -> u128 {
            let mut out = [0u8; 16];
            if self.idx < self.vals.len() {
                let v = &self.vals[self.idx];
                for i in 0..n.min(v.len()) {
                    out[i] = v[i];
                }
            }
            self.idx += 1;
            u128::from_le_bytes(out)
        }
    }

    impl Src for RSrc {
        fn u8(&mut self) -> u8 {
            self.next(1) as u8
        }
        fn u16(&mut self) -> u16 {
            self.next(2) as u16
        }
        fn u32(&mut self) -> u32 {
            self.next(4) as u32
        }
        fn u64(&mut self) -> u64 {
            self.next(8) as u64
        }
        fn u128(&mut self) -> u128 {
            self.next(16)
        }
        fn usize(&mut self) -> usize {
            self.next(8) as usize
        }
        fn bool(&mut self) -> bool {
            self.next(1) != 0
        }
        fn assume(&mut self, c: bool) {
            if !c {
                self.assumption_failed = true;
            }
        }
        fn check(&mut self, c: bool, msg: &'static str) {
            if !c && !self.assumption_failed {
                self.failed.push(msg);
            }
        }
        fn cover(&mut self, _c: bool) {}
    }
}

/// Obligation: under Kani a `kani::assert` carrying the literal message (which is how a failed
/// obligation is named in the report); natively a recorded failure.
macro_rules! chk {
    ($s:expr, $c:expr, $msg:literal $(,)?) => {{
        let c__: bool = $c;
        #[cfg(kani)]
        kani::assert(c__, $msg);
        #[cfg(not(kani))]
        $s.check(c__, $msg);
    }};
}

/// Declares a Kani proof harness `$name` that runs contract function `$f` on symbolic inputs, and
/// registers it for native replay under the same name.
macro_rules! harness {
    ($name:ident, $f:expr) => {
        #[cfg(kani)]
        #[kani::proof]
        pub fn $name() {
            $f(&mut $crate::verif::src::KSrc)
        }
    };
    ($name:ident, $f:expr, unwind $n:expr) => {
        #[cfg(kani)]
        #[kani::proof]
        #[kani::unwind($n)]
        pub fn $name() {
            $f(&mut $crate::verif::src::KSrc)
        }
    };
}

/// Builds `pub fn replay(name, src) -> bool` for a module from (name, fn) pairs.
macro_rules! replay_table {
    ($( $name:ident => $f:expr ),* $(,)?) => {
        pub fn replay(name: &str, s: &mut $crate::verif::src::RSrc) -> bool {
            $( if name == stringify!($name) { $f(s); return true; } )*
            false
        }
    };
}

pub(crate) use chk;
pub(crate) use harness;
pub(crate) use replay_table;

/// Vacuity canary: a deliberately false obligation. Every run requires Kani to REJECT it; if it is
/// ever reported successful the tool chain proves nothing and the check refuses to answer.
pub mod canary {
    #[cfg(kani)]
    #[kani::proof]
    pub fn must_fail() {
        let x: u8 = kani::any();
        kani::assert(x != 77, "canary: deliberately false obligation");
    }
}

pub mod exts {
    include!(concat!(env!("DEBRUIJN_VERIF_DIR"), "/kani/exts.rs"));
}

pub mod tables {
    include!(concat!(env!("DEBRUIJN_VERIF_DIR"), "/kani/tables.rs"));
}

pub mod kmers {
    include!(concat!(env!("DEBRUIJN_VERIF_DIR"), "/kani/kmers.rs"));
}

/// Native differential validation of the AVX2 intrinsic models (assumption check, see m_bitops_avx2.rs)
pub fn validate_avx_models(n: usize) -> (usize, usize) {
    crate::bitops_avx2::verif::validate_models(n)
}

/// Native replay entry: `path` is the harness path below `verif::` (e.g. `kmers::kmer48::k_rc`).
pub fn replay(path: &str, vals: Vec<Vec<u8>>) -> Result<Vec<&'static str>, String> {
    let mut s = src::RSrc::new(vals);
    let (module, rest) = match path.find("::") {
        Some(i) => (&path[..i], &path[i + 2..]),
        None => return Err(format!("bad harness path {}", path)),
    };
    let found = match module {
        "exts" => exts::replay(rest, &mut s),
        "tables" => tables::replay(rest, &mut s),
        "kmers" => kmers::replay(rest, &mut s),
        "vmer" => crate::vmer::verif::replay(rest, &mut s),
        "dna_string" => crate::dna_string::verif::replay(rest, &mut s),
        "msp" => crate::msp::verif::replay(rest, &mut s),
        "compression" => crate::compression::verif::replay(rest, &mut s),
        "graph" => crate::graph::verif::replay(rest, &mut s),
        "filter" => crate::filter::verif::replay(rest, &mut s),
        "bitops_avx2" => crate::bitops_avx2::verif::replay(rest, &mut s),
        _ => false,
    };
    if !found {
        return Err(format!("unknown harness {}", path));
    }
    if s.assumption_failed {
        return Err("recorded inputs violate the harness precondition".to_string());
    }
    Ok(s.failed)
}
