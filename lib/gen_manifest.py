#!/usr/bin/env python3
"""Regenerate MANIFEST.json from lib/props.py (claimed properties) + NOT_APPLICABLE below."""
import json, os, sys
sys.path.insert(0, os.path.dirname(os.path.abspath(__file__)))
import props

VERIF = os.path.dirname(os.path.dirname(os.path.abspath(__file__)))

def main():
    checks = []
    for pid in sorted(props.PROPS):
        P = props.PROPS[pid]
        checks.append({
            "property_id": pid,
            "quick_cmd": "./check %s --tier quick" % pid,
            "thorough_cmd": "./check %s --tier thorough" % pid,
            "evidence_file": "evidence/%s.json" % pid,
            "replay_cmd_template": "./check %s --replay {path}" % pid,
            "engine": P.get("engine", "kani+verus"),
            "level_claimed": {"category": "proof", "text": P["level_text"], "design_ref": P.get("design_ref", "DESIGN.md §6")},
            "level_note": P["level_note"],
            "technique": P.get("technique", "contract-based deductive verification (Kani function-contract harnesses on the real crate; Verus on mechanically extracted functions)"),
        })
    na = [{"property_id": k, "reason": v} for k, v in sorted(props.NOT_APPLICABLE.items()) if k not in props.PROPS]
    m = {
        "version": 1,
        "setup_cmd": "./setup.sh",
        "hooks": {
            "guard": "cfg(kani) / --cfg debruijn_verif",
            "enable": "cargo kani sets cfg(kani); the replay build sets RUSTFLAGS=--cfg debruijn_verif; both need DEBRUIJN_VERIF_DIR=/verif (the hook include!s /verif/kani/*.rs)",
            "baseline_off_cmd": "cd /repo && cargo test --workspace --no-fail-fast --offline",
            "source_commits": props.HOOK_COMMITS,
            "add_only": True,
        },
        "engines": [
            {"name": "kani", "path": "kani/", "serves_properties": sorted(p for p in props.PROPS if props.PROPS[p].get("uses_kani", True)),
             "kind_free_text": "Kani 0.68 / CBMC 6.11 contract harnesses compiled inside the real crate (assume pre / call real fn / assert post), fully symbolic fixed-width inputs"},
            {"name": "verus", "path": "verus/", "serves_properties": sorted(p for p in props.PROPS if props.PROPS[p].get("verus")),
             "kind_free_text": "Verus 0.2026.09.13 on functions extracted verbatim from /repo/src on every run (verus/extract.py), contracts/invariants spliced from verus/units/*.tmpl"},
        ],
        "checks": checks,
        "not_applicable": na,
        "notes": "exit 0 = all obligations discharged; exit 1 = failed obligation (VIOLATION line); exit 2 = undecided (tool limit / lost anchor), never an alarm. known_findings.json lists recorded findings and fixes.",
    }
    with open(os.path.join(VERIF, "MANIFEST.json"), "w") as f:
        json.dump(m, f, indent=1)
    print("MANIFEST.json: %d checks, %d not_applicable" % (len(checks), len(na)))

if __name__ == "__main__":
    main()
