"""Run Kani contract harnesses of the in-crate `verif` module against /repo's working tree."""
import os
import re
import subprocess
import time

VERIF = os.path.dirname(os.path.dirname(os.path.abspath(__file__)))
REPO = os.environ.get("DEBRUIJN_REPO", "/repo")
CACHE = os.path.join(VERIF, ".cache")

KANI_FLAGS = ["-Z", "function-contracts", "-Z", "stubbing", "-Z", "unstable-options"]


def kani_env():
    env = dict(os.environ)
    env["CARGO_NET_OFFLINE"] = "true"
    env["CARGO_TARGET_DIR"] = os.path.join(CACHE, "kani")
    env["DEBRUIJN_VERIF_DIR"] = VERIF
    env.pop("RUSTUP_TOOLCHAIN", None)
    return env


UNDECIDED_PAT = re.compile(
    r"unwinding assertion|is not currently supported by Kani|not supported|"
    r"recursion unwinding|foreign function|inline assembly",
    re.I,
)


def classify(msg):
    """A failed CBMC check is either a failed obligation or a tool limit (undecided)."""
    if UNDECIDED_PAT.search(msg):
        return "undecided"
    return "failed"


def parse_log(text):
    """Parse `--output-format terse -j N` output into per-harness results."""
    cur = {}  # thread -> harness
    res = {}
    lines = text.splitlines()
    i = 0
    block = None
    thread = None
    single = None  # non-threaded run
    while i < len(lines):
        ln = lines[i]
        m = re.match(r"^(?:Thread (\d+): )?Checking harness (\S+?)\.\.\.$", ln)
        if m:
            t = m.group(1) or "-"
            cur[t] = m.group(2)
            if m.group(1) is None:
                thread = "-"
                block = {"harness": m.group(2), "failed": [], "lines": []}
            i += 1
            continue
        m = re.match(r"^Thread (\d+): $", ln)
        if m:
            thread = m.group(1)
            block = {"harness": cur.get(thread), "failed": [], "lines": []}
            i += 1
            continue
        if block is not None:
            block["lines"].append(ln)
            m = re.match(r"^ \*\* (\d+) of (\d+) failed", ln)
            if m:
                block["n_failed"] = int(m.group(1))
                block["n_checks"] = int(m.group(2))
            m = re.match(r"^ \*\* (\d+) of (\d+) cover properties satisfied", ln)
            if m:
                block["cover_sat"] = int(m.group(1))
                block["cover_total"] = int(m.group(2))
            m = re.match(r"^Failed Checks: (.*)$", ln)
            if m:
                loc = ""
                if i + 1 < len(lines) and lines[i + 1].startswith(" File:"):
                    loc = lines[i + 1].strip()
                block["failed"].append({"msg": m.group(1), "loc": loc, "kind": classify(m.group(1))})
            m = re.match(r"^VERIFICATION:- (\w+)", ln)
            if m:
                block["status"] = m.group(1)
            m = re.match(r"^Verification Time: ([\d.]+)s", ln)
            if m:
                block["time_s"] = float(m.group(1))
                if block["harness"]:
                    res[block["harness"]] = block
                block = None
            if ln.startswith("CBMC failed") or ln.startswith("CBMC timed out") or "out of memory" in ln.lower():
                block.setdefault("tool_error", ln) if block is not None else None
        i += 1
    if block is not None and block.get("harness"):
        res[block["harness"]] = block
    summary_failed = re.findall(r"^Verification failed for - (\S+)", text, re.M)
    m = re.search(r"Complete - (\d+) successfully verified harnesses, (\d+) failures, (\d+) total", text)
    totals = tuple(int(x) for x in m.groups()) if m else None
    return res, summary_failed, totals


def run(filters, jobs=16, timeout=7200, exact=False, extra=None, log_path=None):
    """Run every harness whose qualified name contains one of `filters`.
    Returns dict(results, summary_failed, totals, wall_s, cmd, rc, log)."""
    os.makedirs(CACHE, exist_ok=True)
    cmd = ["cargo", "kani"] + KANI_FLAGS + ["-j", str(jobs), "--output-format", "terse"]
    if exact:
        cmd.append("--exact")
    for f in filters:
        cmd += ["--harness", f]
    if extra:
        cmd += extra
    t0 = time.time()
    # own process group: on a timeout the whole tree (cargo -> kani-driver -> cbmc) is killed, no orphan solver is left behind
    pr = subprocess.Popen(cmd, cwd=REPO, env=kani_env(), stdout=subprocess.PIPE, stderr=subprocess.STDOUT, text=True,
                          start_new_session=True)
    try:
        out, _ = pr.communicate(timeout=timeout)
        rc = pr.returncode
    except subprocess.TimeoutExpired:
        import signal
        try:
            os.killpg(pr.pid, signal.SIGKILL)
        except OSError:
            pass
        out, _ = pr.communicate()
        out = out or ""
        rc = -9
    wall = time.time() - t0
    if log_path:
        os.makedirs(os.path.dirname(log_path), exist_ok=True)
        with open(log_path, "w") as f:
            f.write(out)
    res, sfail, totals = parse_log(out)
    compile_error = None
    if totals is None:
        m = re.search(r"^error(\[E\d+\])?: .*$", out, re.M)
        compile_error = m.group(0) if m else "kani produced no summary"
    return {
        "results": res,
        "summary_failed": sfail,
        "totals": totals,
        "wall_s": wall,
        "cmd": "cd %s && DEBRUIJN_VERIF_DIR=%s CARGO_TARGET_DIR=%s/kani %s" % (REPO, VERIF, CACHE, " ".join(cmd)),
        "rc": rc,
        "log": out,
        "compile_error": compile_error,
    }


def concrete_playback(harness, timeout=900):
    """Ask Kani for concrete counterexample candidates of one failing harness. Returns a list of candidates
    (each a list of byte vectors, one per kani::any() draw, in order) or None."""
    cmd = ["cargo", "kani"] + KANI_FLAGS + ["-Z", "concrete-playback", "--concrete-playback=print",
                                            "--exact", "--harness", harness, "--output-format", "terse"]
    pr = subprocess.Popen(cmd, cwd=REPO, env=kani_env(), stdout=subprocess.PIPE, stderr=subprocess.STDOUT, text=True,
                          start_new_session=True)
    try:
        out, _ = pr.communicate(timeout=timeout)
    except subprocess.TimeoutExpired:
        import signal
        try:
            os.killpg(pr.pid, signal.SIGKILL)
        except OSError:
            pass
        pr.communicate()
        return None, "concrete playback timed out"
    k = out.find("Checking harness")
    if k >= 0:
        out = out[k:]
    # one generated test per failed check / satisfied cover: candidates = failed-check inputs first, then
    # cover witnesses (a cover witness is only *used* if the native replay confirms it violates the contract)
    blocks = re.split(r"(?=/// Test generated for harness)", out)
    cands = []
    for b in blocks:
        m = re.search(r"let concrete_vals: Vec<Vec<u8>> = vec!\[(.*?)\];", b, re.S)
        if not m:
            continue
        vals = []
        for vm in re.finditer(r"vec!\[([^\]]*)\]", m.group(1)):
            vals.append([int(x) for x in re.findall(r"\d+", vm.group(1))])
        is_cover = bool(re.search(r"Check for `cover`", b))
        cands.append((1 if is_cover else 0, vals))
    cands.sort(key=lambda t: t[0])
    if not cands:
        return None, out[-4000:]
    vals = [c[1] for c in cands]
    return vals, out[-6000:]
