"""Property -> obligations table (which contracts decide which property)."""

ALL_TYPES = ["kmer64", "kmer48", "kmer40", "kmer32", "kmer31", "kmer30", "kmer24", "kmer20", "kmer16",
             "kmer15", "kmer14", "kmer12", "kmer10", "kmer8", "kmer6", "kmer5", "kmer4", "kmer3", "kmer2"]
# one representative per (storage width x full/partial x odd K)
QUICK_TYPES = ["kmer64", "kmer48", "kmer32", "kmer31", "kmer20", "kmer16", "kmer15", "kmer8", "kmer5", "kmer4",
               "kmer3"]
K_OF = {t: int(t[4:]) for t in ALL_TYPES}


def kfam(fams, tier, min_k=0, max_k=64):
    types = ALL_TYPES if tier == "thorough" else QUICK_TYPES
    out = []
    for t in types:
        if not (min_k <= K_OF[t] <= max_k):
            continue
        for f in fams:
            if f == "k_to_u64" and K_OF[t] > 32:
                continue
            out.append("verif::kmers::%s::%s" % (t, f))
    return out


def exts(names):
    return ["verif::exts::%s" % n for n in names]


def tables(names):
    return ["verif::tables::%s" % n for n in names]


C10_FAMS = ["k_len", "k_get", "k_set_mut", "k_set_slice_mut", "k_rc", "k_extend_left", "k_extend_right", "k_empty",
            "k_from_bytes", "k_from_ascii", "k_from_u64", "k_to_u64", "k_hamming", "k_at_gc"]
C11_FAMS = ["k_eq_ord", "k_hash",
            # every value-producing operation re-establishes `inv` (unused storage bits zero)
            "k_set_mut", "k_set_slice_mut", "k_rc", "k_extend_left", "k_extend_right", "k_empty", "k_from_bytes",
            "k_from_ascii", "k_from_u64", "k_min_rc"]
EXTS_ALL = ["x_rc", "x_complement", "x_reverse", "x_set", "x_has_ext", "x_num_ext_dir", "x_get_unique_extension",
            "x_single_dir", "x_merge", "x_from_single_dirs", "x_add", "x_mk", "x_get", "x_dir",
            "x_from_slice_bounds"]
TABLES_ALL = ["t_base_to_bits", "t_dna_only_base_to_bits", "t_bits_to_ascii", "t_complement"]


PROPS = {
    "C10": {
        "title": "Packed k-mers behave as length-K strings",
        "kani": lambda tier: kfam(C10_FAMS, tier) + tables(["t_bits_to_ascii", "t_base_to_bits"]),
        "verus": [],
        "bounded": lambda tier: [],
        "design_ref": "DESIGN.md §6 C10",
        "undecided": ["text rendering (to_string / Debug) - pending Verus unit"],
        "level_text": "Every Mer/Kmer operation of each shipped k-mer type is proved equal to the same operation on the K-letter string for ALL storage values and all in-range arguments: Kani contract harnesses over a fully symbolic storage word, loop-free or K-bounded with unwinding assertions (complete, not sampled).",
        "level_note": "Trusted: rustc->MIR, Kani/CBMC soundness. Preconditions (derived from call sites): bases < 4, from_u64(v) with v < 4^K, set_slice_mut with 1<=n<=32 and pos+n<=K. quick = 11 representative types, thorough = all 19.",
    },
    "C11": {
        "title": "K-mer equality, order and hash are those of the string",
        "kani": lambda tier: kfam(C11_FAMS, tier),
        "verus": [],
        "bounded": lambda tier: [],
        "design_ref": "DESIGN.md §6 C11",
        "undecided": [],
        "level_text": "History quantifier turned into invariant preservation: every value-producing operation is proved to re-establish `inv` (unused storage bits zero) and ==, cmp, partial_cmp, < and the Hash byte stream are proved to be functions of the string view on inv values, for all pairs of storage words (Kani, complete).",
        "level_note": "Trusted: rustc->MIR, Kani/CBMC; std sort/dedup/binary_search and boomphf agree with Ord/Eq/Hash (their contracts, not re-verified). Values forged through the pub storage field or serde are outside the quantifier.",
    },
}

COMMON_TRUST = [
    "rustc lowers the crate to the MIR that Kani verifies; CBMC 6.11 and its SAT back end are sound",
    "Kani models machine arithmetic bit-precisely (overflow, shift and bounds checks stay on): integers are NOT idealised",
]


HOOK_COMMITS = ["b99dd0a", "cace3e3"]

NOT_APPLICABLE = {
    "C01": "whole-construction inductive invariant over generic code threading three third-party containers; no single-call contract expresses it and the bounded route is intractable for Kani (see DESIGN.md §6 C01)",
    "C04": "relational equivalence between two pipelines; follows only from global theorems (C01/C02/C09 + C05 kernel) that no contract here decides (DESIGN.md §6 C04)",
    "C19": "quantifies over thread schedules of boomphf's rayon builder: Kani has no threads, Verus would have to verify the third-party MPHF (DESIGN.md §6 C19)",
    "C20": "serde derive output and write!/format! byte streams judged by a parser: string/byte-grammar reasoning neither verifier supports (DESIGN.md §6 C20)",
    "C02": "not built yet in this session (planned: Verus on try_extend_kmer / extend_kmer, DESIGN.md §6 C02)",
    "C03": "not built yet in this session (planned: Verus on find_link / find_edges / pruning, DESIGN.md §6 C03)",
    "C05": "not built yet in this session (planned, DESIGN.md §6 C05)",
    "C06": "not built yet in this session (planned, DESIGN.md §6 C06)",
    "C07": "not built yet in this session (planned, DESIGN.md §6 C07)",
    "C08": "not built yet in this session (planned, DESIGN.md §6 C08)",
    "C09": "not built yet in this session (planned, DESIGN.md §6 C09)",
    "C12": "not built yet in this session (planned, DESIGN.md §6 C12)",
    "C13": "not built yet in this session (planned, DESIGN.md §6 C13)",
    "C14": "not built yet in this session (planned, DESIGN.md §6 C14)",
    "C15": "not built yet in this session (planned, DESIGN.md §6 C15)",
    "C16": "not built yet in this session (planned, DESIGN.md §6 C16)",
    "C17": "not built yet in this session (planned, DESIGN.md §6 C17)",
    "C18": "not built yet in this session (planned, DESIGN.md §6 C18)",
}
