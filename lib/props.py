"""Property -> obligations table (which contracts decide which property)."""

ALL_TYPES = ["kmer64", "kmer48", "kmer40", "kmer32", "kmer31", "kmer30", "kmer24", "kmer20", "kmer16",
             "kmer15", "kmer14", "kmer12", "kmer10", "kmer8", "kmer6", "kmer5", "kmer4", "kmer3", "kmer2"]
# one representative per (storage width x full/partial x odd K), plus K = 2 mod 4 (kmer6) and the smallest type (kmer2)
# - both added after the self-test showed quick-tier misses for edits that only affect those types
QUICK_TYPES = ["kmer64", "kmer48", "kmer32", "kmer31", "kmer20", "kmer16", "kmer15", "kmer8", "kmer6", "kmer5", "kmer4",
               "kmer3", "kmer2"]
K_OF = {t: int(t[4:]) for t in ALL_TYPES}


def kfam(fams, tier, min_k=0, max_k=64):
    types = ALL_TYPES if tier == "thorough" else QUICK_TYPES
    out = []
    for t in types:
        if not (min_k <= K_OF[t] <= max_k):
            continue
        for f in fams:
            if f == "k_to_u64" and K_OF[t] > 32:
                continue
            out.append("verif::kmers::%s::%s" % (t, f))
    return out


def exts(names):
    return ["verif::exts::%s" % n for n in names]


def tables(names):
    return ["verif::tables::%s" % n for n in names]


C10_FAMS = ["k_len", "k_get", "k_set_mut", "k_set_slice_mut", "k_rc", "k_extend_left", "k_extend_right", "k_empty",
            "k_from_bytes", "k_from_ascii", "k_from_u64", "k_to_u64", "k_hamming", "k_at_gc"]
C11_FAMS = ["k_eq_ord", "k_hash",
            # every value-producing operation re-establishes `inv` (unused storage bits zero)
            "k_set_mut", "k_set_slice_mut", "k_rc", "k_extend_left", "k_extend_right", "k_empty", "k_from_bytes",
            "k_from_ascii", "k_from_u64", "k_min_rc"]
EXTS_ALL = ["x_rc", "x_complement", "x_reverse", "x_set", "x_has_ext", "x_num_ext_dir", "x_get_unique_extension",
            "x_single_dir", "x_merge", "x_from_single_dirs", "x_add", "x_mk", "x_get", "x_dir",
            "x_from_slice_bounds"]
TABLES_ALL = ["t_base_to_bits", "t_dna_only_base_to_bits", "t_bits_to_ascii", "t_complement"]


PROPS = {
    "C10": {
        "title": "Packed k-mers behave as length-K strings",
        "kani": lambda tier: kfam(C10_FAMS, tier) + tables(["t_bits_to_ascii", "t_base_to_bits"]),
        "verus": [("kmertext", r"^(KmerText::fmt_debug_int|KmerText::fmt_debug_var|Kmer::to_string|bits_to_base|base_to_bits|KmerDefaults::(extend_default|from_bytes_default|from_ascii_default))$")],
        "bounded": lambda tier: [],
        "design_ref": "DESIGN.md §6 C10",
        "undecided": [],
        "trust": ["Verus 0.2026.09.13 / Z3; extractor rules (verus/extract.py); R4: core::fmt renders a char / String as itself; the trait-level Mer/Kmer contract used by the text functions is the one Kani discharges per shipped type (families k_get, k_len)"],
        "level_text": "Text rendering: the real default body of Kmer::to_string and the real bodies of Debug for IntKmer / VarIntKmer are proved, for every K and every value, to produce exactly the K letters of the k-mer (Verus unit kmertext, against the trait contract); the real default bodies of Kmer::extend, from_bytes and from_ascii are proved once, for every implementation that does not override them, against the primitive contracts empty / set_mut / extend_left / extend_right (same unit). Every Mer/Kmer operation of each shipped k-mer type is proved equal to the same operation on the K-letter string for ALL storage values and all in-range arguments: Kani contract harnesses over a fully symbolic storage word, loop-free or K-bounded with unwinding assertions (complete, not sampled).",
        "level_note": "Trusted: rustc->MIR, Kani/CBMC soundness; for the text / default-body unit kmertext: Verus/Z3, extractor rules, R4. Preconditions (derived from call sites): bases < 4, from_u64(v) with v < 4^K, set_slice_mut with 1<=n<=32 and pos+n<=K. quick = 11 representative types, thorough = all 19.",
    },
    "C11": {
        "title": "K-mer equality, order and hash are those of the string",
        "kani": lambda tier: kfam(C11_FAMS, tier),
        "verus": [],
        "bounded": lambda tier: [],
        "design_ref": "DESIGN.md §6 C11",
        "undecided": [],
        "level_text": "History quantifier turned into invariant preservation: every value-producing operation is proved to re-establish `inv` (unused storage bits zero) and ==, cmp, partial_cmp, < and the Hash byte stream are proved to be functions of the string view on inv values, for all pairs of storage words (Kani, complete).",
        "level_note": "Trusted: rustc->MIR, Kani/CBMC; std sort/dedup/binary_search and boomphf agree with Ord/Eq/Hash (their contracts, not re-verified). Values forged through the pub storage field or serde are outside the quantifier.",
    },
}

# bounded Kani harnesses run as counterexample finders when a Verus unit is undecided on the tree under check
_DNA_FALLBACK = [("dna_string::verif::d_get_kmer_b_k64", "get_kmer Kmer64 on a 96-base string"),
                 ("dna_string::verif::d_get_kmer_b_k48", "get_kmer Kmer48 on a 96-base string"),
                 ("dna_string::verif::d_get_kmer_b_k32", "get_kmer Kmer32 on a 96-base string"),
                 ("dna_string::verif::d_get_kmer_b_k20", "get_kmer Kmer20 on a 96-base string"),
                 ("dna_string::verif::d_get_kmer_b_k5", "get_kmer Kmer5 on a 96-base string"),
                 ("dna_string::verif::d_blank_b_0", "blank(0) + extend"),
                 ("dna_string::verif::d_blank_b_32", "blank(32) + extend"),
                 ("dna_string::verif::d_blank_b_33", "blank(33) + extend"),
                 ("dna_string::verif::d_extend_b_0_33", "extend: empty prefix + 33 items"),
                 ("dna_string::verif::d_extend_b_32_1", "extend: 32-base prefix + 1 item"),
                 ("dna_string::verif::d_packed_add_b", "PackedDnaStringSet add/get")]
_SLICE_FALLBACK = _DNA_FALLBACK + [("dna_string::verif::d_slice_eq_b", "slice == on two 6-base views of a 40-base string"),
                                   ("dna_string::verif::d_slice_hamming_1024", "hamming_dist length 1024"),
                                   ("dna_string::verif::d_slice_render_3", "Display/Debug 3 bases")]
UNIT_FALLBACK = {
    "dnastring": _DNA_FALLBACK,
    "packedset": _DNA_FALLBACK,
    "extend": _DNA_FALLBACK + [("dna_string::verif::d_rc_reverse_b_33", "rc / reverse: 33 bases"), ("dna_string::verif::d_to_bytes_b_33", "to_bytes / to_ascii_vec: 33 bases"),
               ("dna_string::verif::d_from_acgt_bytes_b_31", "from_acgt_bytes on 31 bytes"),
               ("dna_string::verif::d_from_acgt_bytes_b_70", "from_acgt_bytes on 70 bytes (two vector blocks + tail)")],
    "dnaslice": _SLICE_FALLBACK,
    "nodeiter": _SLICE_FALLBACK + [("graph::verif::g_node_iter_seq", "3 calls next()/nth(n<=9) on a 9-base node")],
    "scan": [("msp::verif::m_scan_p2_k2m5", "P = Kmer2, k = 2, m = 5")],
    "graphfn": _SLICE_FALLBACK,
    "extsdna": _SLICE_FALLBACK,
    "nodesall": _SLICE_FALLBACK + [("graph::verif::g_node_iter_seq", "3 calls next()/nth(n<=9) on a 9-base node")],
    "kmeriter": [("vmer::verif::lmer1::l_get_kmer_k5", "Lmer1 get_kmer Kmer5")],
    "compgraph": _SLICE_FALLBACK,
    "buildstep": [],
    "buildnode": [],
    "noexts": [],
    "maxpath": [],
    "gfalinks": [],
    "kmersfrom": [("verif::kmers::kmer5::k_kmers_from", "kmers_from_bytes/ascii on exactly K+3 bases")],
    "hashn": [("dna_string::verif::d_hashn_concrete", "from_acgt_bytes_hashn on eight concrete 8-byte reads")],
    "jsonlinks": [],
    "kmertext": [],
    "groupkernel": [("filter::verif::f_count_filter", "<= 6 observations")],
    "prune": [("filter::verif::f_remove_censored_3", "remove_censored_exts on 3 Kmer4 entries"), ("filter::verif::f_remove_censored_sharded", "remove_censored_exts_sharded, 2 entries + 3 all_kmers")],
    "msppiece": [("msp::verif::m_msp_sequence_short", "msp_sequence on reads of exactly k = 3, and k - 1, bases")],
}

LMER_WIDE_QUICK = ("l_new", "l_get", "l_set_mut", "l_wf_canonical")  # cheap families run for the wide arrays (4..6 words) on every change


# Enumerated native fallbacks (run only when a Verus unit is undecided and no Kani harness is tractable): the contract function is run
# on the REAL crate for every combination of the listed values (one domain per drawn value, in draw order) - a bounded, enumerated
# check; a failure is a replayable violation, a clean run leaves the unit undecided.
_B4 = (1, [0, 1, 2, 3])
UNIT_FALLBACK_ENUM = {
    "gfalinks": [("graph::verif::g_gfa_export_long", [(1, list(range(16)))],
                  "GFA export of the Kmer16 graph of one 300-base pseudo-random read, 16 seeds, enumerated natively: one S line per node with its id and ACGT sequence (nodes of >= 256 bases occur)"),
                 ("graph::verif::g_gfa_links_read", [(8, [8])] + [_B4] * 8,
                  "GFA export of the unstranded Kmer5 graph of every 8-base read (65536 reads), enumerated natively: every adjacency has an L line")],
    "summarize": [("filter::verif::f_count_filter_set_2",
                   [(8, [0, 1, 2]), (8, [0, 1, 2, 3]), (1, [0, 1, 7]), (1, [0, 17, 130]), (1, [0, 1, 7]), (1, [0, 17, 68]), (1, [0, 1, 7])],
                   "CountFilterSet::summarize, enumerated natively: <= 2 observations, thresholds 0..3, labels in {0,1,7}, three extension bytes (2916 cases)")],
}


def lmer(fams, tier, ks=None):
    ns = [1, 2, 3, 4, 5, 6]
    out = []
    for n in ns:
        wide_quick = tier != "thorough" and n > 3
        for f in fams:
            if wide_quick and f not in LMER_WIDE_QUICK:
                continue
            out.append("vmer::verif::lmer%d::%s" % (n, f))
        if wide_quick:
            continue
        for k in (ks or []):
            if k <= 32 * n - 4:
                out.append("vmer::verif::lmer%d::l_get_kmer_k%d" % (n, k))
    return out


LMER_KS_QUICK = [32, 20, 16, 5, 4]
LMER_KS_ALL = [64, 48, 32, 31, 20, 16, 15, 8, 5, 4, 3]
SEAM_NOTE = ("Seam: Verus proves generic container code against the trait-level Mer/Kmer contract (verus/units/prelude.rs); "
             "Kani discharges those clauses on the real impls of each shipped k-mer type (families k_get, k_set_slice_mut, "
             "k_rc, k_extend_right, k_empty, k_from_bytes, k_len). A downstream impl of Kmer is not covered.")
ADAPTER_NOTE = 'R21 seams (unit extend): `impl Iterator<Item = u8>` / Peekable are the ghost item source ByteSrc (next / peek by contract); `s.iter().cloned()`, `s.iter().map(f)`, `text.chars().map(f)`, `(0..n).rev().map(f)` yield f of the items in (reverse) order; `collect::<Vec<u8>>()` is the push-until-None loop over the real DnaStringIter::next (verified loop, assumed to be what std does); `values.iter().rev()` by its vstd specification'

VERUS_TRUST = [
    "Verus 0.2026.09.13 / Z3 are sound; the extractor (verus/extract.py) copies function bodies verbatim and applies only rewrite rules R1-R21 (listed in its header, counted per function in coverage.extraction)",
    "vstd specifications of Vec, Option, Range, String::push/new; assumed: std::cmp::min, String::with_capacity (prelude.rs)",
    "strings are shorter than 2^62 bases (max_len); usize is 64 bit",
]

PROPS["C12"] = {
    "title": "Reverse complement is coherent across all sequence types",
    "kani": lambda tier: kfam(["k_rc", "k_min_rc", "k_canon"], tier) + exts(["x_rc", "x_complement", "x_reverse"])
        + lmer(["l_rc", "l_rc_empty"], tier) + tables(["t_complement"]),
    "verus": [("dnaslice", r"^(DnaStringSlice::(rc|get|get_kmer|slice)|complement|DnaString::(get|get_kmer|slice|prefix|suffix))$"),
              ("extend", r"^DnaString::(rc|reverse|extend)$|^collect_bytes$")],
    "bounded": lambda tier: [("dna_string::verif::d_rc_reverse_b_33", "DnaString::rc / reverse on a 33-base string (symbolic contents)"),
                             ("dna_string::verif::d_rc_reverse_b_64", "DnaString::rc / reverse on a 64-base string (two full blocks)")],
    "design_ref": "DESIGN.md §6 C12",
    "undecided": [],
    "trust": VERUS_TRUST + [SEAM_NOTE, ADAPTER_NOTE],
    "level_text": "k-mer rc (positional law, involution, inv), canonical form / palindrome test and Exts rc/complement/reverse are proved for all values by Kani on the real code (complete); Lmer::rc for every capacity N per fixed N (complete); slice rc/get/get_kmer under rc are proved unbounded by Verus on the extracted bodies, incl. that the i-th k-mer of the reverse complement is the rc of the mirrored window. DnaString::rc and DnaString::reverse are proved as whole functions for every length (Verus unit extend: the real closure `|i| 3 - self.get(i)`, the real extend with both its loops; rule R21 for the iterator adapters).",
    "level_note": "Trusted: Kani/CBMC, Verus/Z3, extractor rules, the V<->K seam (trait contract assumed in Verus, discharged per shipped type by Kani), std iterator adapters by their stated meaning (R21).",
}

PROPS["C13"] = {
    "title": "K-mer extraction agrees across all containers",
    "kani": lambda tier: kfam(["k_from_bytes", "k_from_ascii", "k_set_slice_mut", "k_extend_right", "k_empty", "k_len"], tier)
        + lmer(["l_from_slice"], tier, LMER_KS_ALL if tier == "thorough" else LMER_KS_QUICK),
    "verus": [("kmersfrom", r"^(kfb_fill_step|kfb_slide_step|kfa_fill_step|kfa_slide_step|base_to_bits|lemma_slide_is_next_window|lemma_fill_prefix|KmersFrom::kmers_from_bytes|KmersFrom::kmers_from_ascii)$"), ("dnastring", r"^DnaString::(get_kmer|addr|get|get_by_addr)$"), ("dnaslice", r"^DnaStringSlice::(get_kmer|get|rc)$"), ("kmeriter", None), ("containers", None)],
    "bounded": lambda tier: [("verif::kmers::%s::k_kmers_from" % t, "kmers_from_bytes/ascii on exactly K+3 bases") for t in (["kmer32", "kmer20", "kmer5"] if tier == "quick" else ALL_TYPES)]
        + ([(h, b) for h, b in _DNA_FALLBACK if "get_kmer" in h] if tier == "thorough" else []),
    "design_ref": "DESIGN.md §6 C13",
    "undecided": ["Kmer::kmers_from_bytes / kmers_from_ascii ARE proved as whole functions (real default bodies, unit kmersfrom: the result lists every window of the input, in order, nothing for inputs shorter than K) relative to two assumed std facts stated as seams (R21): `s.iter().take(n)` visits the prefix s[..n] and `s.iter().skip(n)` the suffix s[n..], in order; `enumerate` is desugared by R20",
                  "iterator totals (exactly max(0,n-K+1) items, in order, each k-mer with its true flanks) ARE discharged obligations: kmeriter::drain_kmers / drain_kmer_exts are the call-next-until-None loop a `for` or `collect` runs, verified against the contracts of the real next bodies; that `for` / `collect` are this loop is std's meaning (the loops themselves are glue, not code of the crate)"],
    "trust": VERUS_TRUST + [SEAM_NOTE],
    "level_text": "get_kmer of the growable string, of forward and reverse-complemented slices at every offset, and of Lmer for each capacity is proved equal to the k-mer built from bases i..i+K (Verus unbounded with loop invariants across 32-base block boundaries; Kani complete per capacity); KmerIter/KmerExtsIter::next and the Vmer first/last/term accessors are proved against the window spec for any container and k-mer type satisfying the trait contract, incl. that boundary extensions are used only at the two ends.",
    "level_note": "Trusted: Verus/Z3, Kani/CBMC, extractor rules, the V<->K seam. DnaBytes/DnaSlice::{len,get,get_kmer} and MerIter::next are verified from their real bodies (unit containers); get_kmer reduces to Kmer::from_bytes (Kani k_from_bytes, complete).",
}

PROPS["C14"] = {
    "title": "Growable DNA string is a faithful sequence container",
    "kani": lambda tier: ["dna_string::verif::d_word_order"],
    "verus": [("dnastring", None), ("packedset", r"^PackedDnaStringSet::"), ("extend", None),
              ("extsdna", r"^(ndiffs|DnaString::hamming_distance|lemma_count_congr|lemma_count_tail)$")],
    "bounded": lambda tier: [("dna_string::verif::d_extend_b_0_33", "extend: empty prefix + 33 items"),
                             ("dna_string::verif::d_extend_b_32_1", "extend: 32-base prefix + 1 item"),
                             ("dna_string::verif::d_rc_reverse_b_33", "rc / reverse: 33 bases"),
                             ("dna_string::verif::d_to_bytes_b_33", "to_bytes / to_ascii_vec: 33 bases"),
                             ("dna_string::verif::d_packed_add_b", "PackedDnaStringSet::add x2 (5 and 3 bases) then get"),
                             ("dna_string::verif::d_blank_b_32", "blank(32) vs pushes, then extend"),
                             ("dna_string::verif::d_blank_b_0", "blank(0) vs new, then extend"),
                             ("dna_string::verif::d_dna_eq_ord_hash_b1", "derived ==/cmp on strings of <= 32 bases")]
        + ([("dna_string::verif::d_dna_eq_ord_hash_b2", "derived ==/cmp/Hash on strings of <= 64 bases (2 words)")] if tier == "thorough" else []),
    "design_ref": "DESIGN.md §6 C14",
    "undecided": ["PackedDnaStringSet::add is proved at the instances S = Vec<u8>, R = u8 and S = &VecDeque<u8>, R = &u8 of its generic item source (R21), for sequences of up to i32::MAX items (its counter `length` is an i32 by integer fallback)",
                  "derived Ord: lemma_ord_iff_view proves for ALL lengths that the order of (storage, then len) - what #[derive(Ord)] compares, in the field order read from the source on every run (obligation derive_shape_DnaString) - is the lexicographic order of the base sequences with a proper prefix first, on wf values; its word-level ingredient (u64 order = lane-lexicographic order) is the Kani-complete d_word_order, restated as axiom_word_order; that the derived impl compares exactly these fields in this way is the derive semantics (assumed; cross-checked by the bounded stand-ins)",
                  "derived ==/Hash: lemma_eq_iff_view proves (storage, len) equal <=> views equal on wf values for all lengths; that the derived impls compare/hash exactly (storage, len) is the derive semantics (assumed; cross-checked by the bounded stand-ins)"],
    "trust": VERUS_TRUST + [ADAPTER_NOTE],
    "level_text": "Data-structure contract: every DnaString operation under contract (new, with_capacity, blank, push, extend, from_bytes, from_dna_string, from_acgt_bytes (scalar path and vector path steps), to_bytes, to_ascii_vec, Display, reverse, rc, set_mut, get, len, is_empty, clear, push_bytes, iter/next, addr/get_by_addr/set_by_addr; PackedDnaStringSet::new/add/get/slice/len) is proved to preserve the representation invariant wf (exact word count, zero padding) and to transform the abstract base vector exactly as the plain-vector operation does, for all lengths (Verus, unbounded). ndiffs / hamming_distance are proved to count the differing positions of two equal-length strings for every length (padding contributes nothing by wf). History quantifier = induction over these per-operation contracts.",
    "level_note": "Trusted: Verus/Z3, extractor rules R1-R21 (item-source seams, see trusted_base), vstd Vec specs, derive semantics of ==/Hash/Ord over the declared field order (obligation derive_shape_DnaString). Every listed operation is under an unbounded contract; see undecided_clauses for the instance / derive caveats.",
}

PROPS["C15"] = {
    "title": "String slices are exact, composable views",
    "kani": lambda tier: ["dna_string::verif::d_count_diff"] + kfam(["k_to_u64", "k_get", "k_rc"], "quick", 32, 32),
    "verus": [("dnaslice", None)],
    "bounded": lambda tier: [("dna_string::verif::d_slice_hamming_1024", "length == 1024, strings differ inside word 0 only"),
                             ("dna_string::verif::d_slice_render_3", "3 bases, Display and Debug, both strands"),
                             ("dna_string::verif::d_slice_eq_b", "slice == on two 6-base views (symbolic offsets and strands) of a 40-base string")],
    "design_ref": "DESIGN.md §6 C15",
    "undecided": [],
    "trust": VERUS_TRUST + [SEAM_NOTE, "R4: core::fmt renders a char / String as itself (fmt::sink in prelude.rs)"],
    "level_text": "Every slice operation (prefix/suffix/slice/slice-of-slice/rc/get/get_kmer/bytes/ascii/to_dna_string/Display/Debug/to_owned/eq/hamming_dist) is proved equal to the same operation on the plain base vector (reverse-complemented when flagged) for ALL strings, offsets and lengths: Verus on the real function bodies extracted each run, with loop invariants; composition follows by induction from slice/rc being exact on views.",
    "level_note": "Trusted: Verus/Z3; extractor rules R1-R13; vstd specs of Vec/String; k-mer trait contract discharged by Kani per shipped type (seam); count_diff_2_bit_packed clause discharged by Kani d_count_diff. Bounded stand-ins (Kani) are counterexample finders only and are not counted as proved.",
}

PROPS["C16"] = {
    "title": "ASCII ingestion is total and path-independent",
    "kani": lambda tier: tables(TABLES_ALL) + ["bitops_avx2::verif::a_block"],
    "verus": [("hashn", r"^DnaString::(from_acgt_bytes_hashn|dna_only_step|from_dna_only_string)$|^(dna_only_base_to_bits|lemma_runs_close|lemma_runs_skip|lemma_runs_finish)$"),
              ("extend", r"^DnaString::(extend|from_acgt_bytes|from_acgt_scalar|acgt_vec_step|acgt_vec_finish|from_dna_string|to_ascii_vec)$|^(lemma_vec_path|lemma_vec_path_upto|lemma_packed_tail_\w+|base_to_bits|collect_map|bits_to_ascii)$")],
    "bounded": lambda tier: [("dna_string::verif::d_from_acgt_bytes_b_31", "from_acgt_bytes on 31 bytes, vector path available and not (feature detection nondeterministic)"),
                             ("dna_string::verif::d_from_acgt_bytes_b_70", "from_acgt_bytes on 70 bytes: two vector blocks plus a 6-byte tail, vector path available and not"),
                             ("dna_string::verif::d_to_bytes_b_33", "to_ascii_vec on 33 bases"),
                             ("dna_string::verif::d_hashn_concrete", "from_acgt_bytes_hashn on eight concrete 8-byte reads (a fixed-input check, not a proof)")],
    "design_ref": "DESIGN.md §6 C16",
    "undecided": ["from_acgt_bytes IS proved as a whole function (unit extend): whichever path runs, the result is well formed and spells base_to_bits of every byte (`r.wf() && r.view() == codes(bytes)`) - so the two paths agree with each other and with from_dna_string on ASCII text; assumed, as R21 seams: `bytes.chunks(32)` yields bytes[32i .. min(32i+32, n)] in order, `is_x86_feature_detected!` is some bool (both answers covered), the two `iter().map(f)` chains, and the block functions convert_bases / pack_32_bases by the contract Kani a_block proves; its pieces (scalar path, one vector trip, closing statement, lemma_vec_path) stay under contract on their own",
                  "from_dna_only_string IS proved as a whole function (unit hashn, runs_post: the result is exactly the maximal runs of ACGT letters of the text, in order, each non-empty and translated letter by letter; every letter lies in one run) - `dna.chars()` being a seam (R21) with the assumed meaning `the chars of the text in order`, and for chars outside Latin-1 the real code's `c as u8` truncation applies (a char whose low byte is an ACGT letter counts as that letter - recorded, the property speaks of ASCII input); from_acgt_bytes_hashn IS decided (unit hashn), but relative to std's hasher being a function of the bytes fed (vstd's DefaultHasher specification plus assumed contracts for the two Hash::hash calls and for cloning the hasher)"],
    "trust": VERUS_TRUST + [ADAPTER_NOTE, "Verus unit extend calls convert_bases / pack_32_bases by the contract that Kani harness a_block proves on the real code (lane t of the packed word is base_to_bits(block[t]))", "the two AVX2 intrinsic models (_mm256_shuffle_epi8, _mm256_testc_si256) follow the Intel SDM; validated natively against the CPU by `debruijn-replay --validate-avx-models`, not proved"],
    "level_text": "The six byte tables are proved for all 256 byte values and the vector path (convert_bases + pack_32_bases, real code incl. unsafe loadu) is proved equal to the scalar path on ALL 256^32 blocks, lane by lane, with the valid flag exact (Kani, complete). DnaString::from_acgt_bytes_hashn is proved as a whole function, for every input (Verus unit hashn, rule R20): the result has one base per byte; A/C/G/T in either case give 0/1/2/3; every other byte gives a base < 4 that is a function of the read name and the position only (finish of a hasher fed exactly the read name and the position) - hence repeatable and independent of the vector path, the other bytes and the string length. DnaString::from_acgt_bytes is proved as a whole function (Verus unit extend): on the vector path and on the scalar path alike the result is well formed and spells base_to_bits of every input byte, for every length - path independence as one postcondition; from_dna_string builds the same codes from text; from_dna_only_string returns exactly the maximal runs of ACGT letters (Verus unit hashn); to_ascii_vec renders bits_to_ascii of every base.",
    "level_note": "Trusted: Kani/CBMC; two intrinsic models (Kani cannot translate pshufb / vptest); Verus/Z3, extractor rules R1-R21 and the item-source seams listed under undecided_clauses (chunks(32), the feature test, iter().map(f), chars()). from_acgt_bytes, from_dna_string, from_dna_only_string and from_acgt_bytes_hashn are all proved as whole functions.",
}

PROPS["C17"] = {
    "title": "Fixed-size DNA strings (Lmer) behave as strings",
    "kani": lambda tier: lmer(["l_new", "l_get", "l_set_mut", "l_set_slice_mut", "l_rc", "l_rc_empty", "l_eq_hash", "l_wf_canonical", "l_from_slice"],
                              tier, LMER_KS_ALL if tier == "thorough" else LMER_KS_QUICK) + ["vmer::verif::l_block"],
    "verus": [("msppiece", r"^VmerFromSlice::from_slice$")],
    "bounded": lambda tier: [],
    "design_ref": "DESIGN.md §6 C17",
    "undecided": [],
    "level_text": "For each capacity N (quick: every family for 1..3 words and the cheap families new/len/get/set_mut/canonical form for 4..6 words; thorough: every family for 1..6) and a fully symbolic well-formed storage: new/len/get/set_mut/set_slice_mut (frame over every raw lane incl. the length byte, runs crossing word boundaries and touching the last word), rc, get_kmer, ==/Hash are proved against the plain-string spec (Kani, complete per N; loops bounded by N with unwinding assertions). Vmer::from_slice's real default body (shared by Lmer and every other Vmer) is additionally proved for EVERY slice length against the trait-level new / set_mut contracts (Verus unit msppiece, rule R20): the result spells exactly the slice.",
    "level_note": "Trusted: Kani/CBMC. Preconditions: len <= max_len, bases < 4, 1 <= n <= 32. l_from_slice is bounded (slice length <= 12).",
}

PROPS["C18"] = {
    "title": "Node k-mer iteration obeys the iterator contract",
    "kani": lambda tier: [],
    "uses_kani": True,
    "verus": [("nodeiter", r"^(NodeKmer::into_iter|NodeKmerIter::(next|nth|size_hint))$"),
              ("nodesall", r"^(NodeIter::next|NodeIntoIter::next|DebruijnGraph::(iter_nodes|get_node_kmer|get_node|len))$")],
    "bounded": lambda tier: [("graph::verif::g_node_iter_seq", "node of 9 bases inside a 21-base string, Kmer4, 3 calls next()/nth(n<=9)")],
    "design_ref": "DESIGN.md §6 C18",
    "undecided": ["that a perfect-hash index built from the all-nodes iteration gives every k-mer a distinct slot is boomphf's contract (assumed); 'every k-mer of the graph exactly once' additionally needs that no k-mer occurs in two nodes, which is C01 (not decided)"],
    "trust": VERUS_TRUST + [SEAM_NOTE],
    "level_text": "NodeKmer::into_iter, NodeKmerIter::next, nth and size_hint are proved against Iterator's documented contract for every node length and every n: usize (below and above the short-skip threshold, inside and beyond the remaining count): struct invariant kmer_id <= num_kmers, yielded k-mer == window(kmer_id), None forever after the end, no read outside the node, no overflow; NodeIter::next and NodeIntoIter::next are proved to visit node ids 0..len-1 in order, each exactly once, handing NodeKmerIter exactly that node's sequence, then None for good (Verus, unbounded).",
    "level_note": "Trusted: Verus/Z3, extractor rules (R8: Iterator impl emitted as inherent methods, associated types substituted), the V<->K seam, DnaStringSlice contracts proved in the same unit.",
}

PROPS["C07"] = {
    "title": "Minimizer partition covers every k-mer exactly once with a true minimizer",
    "kani": lambda tier: kfam(["k_extend_right", "k_len"], tier, 2, 8) + ["msp::verif::m_minpos_order"],
    "verus": [("scan", None)],
    "bounded": lambda tier: [("msp::verif::m_scan_p2_k2m5", "P = Kmer2, k = 2, m = 5, score table values in 0..2")] if tier == "thorough" else [],
    "design_ref": "DESIGN.md §6 C07",
    "undecided": [],
    "trust": VERUS_TRUST + [SEAM_NOTE,
        "std::cmp::min(a, b) = match a.cmp(&b) { Greater => b, _ => a } (std source, modelled by `min` in verus/units/scan.rs.tmpl over the REAL extracted MinPos::cmp)",
        "core's derived PartialEq for Ordering is structural equality (axiom_ordering_eq)",
        "the score closure is total and a function of the p-mer's bases (precondition Scanner::wf)"],
    "level_text": "Scanner::{new, mp, incr, scan} and MinPos::cmp are verified UNBOUNDED by Verus from their real text (incl. the find_min closure with its inner loop): for every sequence container, p-mer type, k >= p, length m >= k and score function, the returned intervals start at 0 in strictly increasing order, consecutive ones overlap by exactly k-1 bases, the last ends at m, each length is in [k, 2k-p], the reported minimizer is the p-mer at the reported position, lies inside every k-mer of its interval, has the minimum score among all the interval's p-mers, and an interval ends only when the next k-mer loses the minimizer or brings a strictly better p-mer.",
    "level_note": "Trusted: Verus/Z3, extractor rules (R14 closure parameter types, R9, R11), the assumed std::cmp::min semantics and Ordering equality axiom, the V<->K seam for the p-mer type. Preconditions derived from the code's own asserts and casts: m < 2^32, 2k-p <= 65535. The Kani harness m_scan_p2 is a bounded cross-check only (thorough tier).",
}

GRAPH_TRUST = [
    "boomphf BoomHashMap/BoomHashMap2 = a finite map with key-verified get / get_key_id and pairwise distinct keys (graph_seam.inc; the MPHF itself is not verified)",
    "bit_set::BitSet = a finite set of usize with contains / remove (graph_seam.inc); smallvec::SmallVec<[T;4]> = a vector with new / push",
    "canon(s) is s or rc(s) and canon(rc s) == canon(s) (axiom_canon; the real min_rc / min_rc_flip are proved to compute the lexicographic minimum by Kani family k_min_rc)",
]

COMPGRAPH_FNS = r"^CompressFromGraph::|^Node::(len|data)$|^BaseGraph::(new|add)$|^lemma_(npush|rel_push|nfold_ids|rc_first|rc_last|rc_bases|ext_bases2|overlap_rc|merged_shape|merged_windows|ncompress_kmers)$"
# unit buildnode: everything except the k-mer level core it re-includes (that is counted once, in unit compress)
BUILDNODE_FNS = r"^(?!CompressFromHash::(extend_kmer|try_extend_kmer|get_kmer_data|get_kmer_id)$|Dir::|Exts::)"

PROPS["C01"] = {
    "title": "Compressed graph is a lossless partition of the input k-mer set",
    "kani": lambda tier: kfam(["k_rc", "k_get", "k_extend_left", "k_extend_right", "k_min_rc"], tier, 4)
        + exts(["x_single_dir", "x_complement", "x_from_single_dirs", "x_num_ext_dir", "x_get_unique_extension"]),
    "verus": [("compress", r"^CompressFromHash::(extend_kmer|try_extend_kmer|get_kmer_data|get_kmer_id)$"),
              ("buildstep", r"^CompressFromHash::(left_step|right_step|left_terminal|right_terminal)$"),
              ("buildnode", BUILDNODE_FNS),
              ("noexts", r"^derive_exts$"),
              ("packedset", r"^PackedDnaStringSet::(get|len|new)$")],
    "bounded": lambda tier: [("dna_string::verif::d_packed_add_b", "PackedDnaStringSet::add x2 (5 and 3 bases) then get")],
    "design_ref": "DESIGN.md §6 C01 (as-built note in the section-6 preamble)",
    "undecided": [
        "entry point compress_kmers_no_exts IS proved as a whole function (unit buildnode; R21: the HashSet<&K> built with iterator adapters is the seam KmerRefSet::of_keys - membership = being one of the keys, as many elements as keys when they are distinct): the graph it returns satisfies graph_post for a table that holds exactly the input k-mers, each with the extension set DERIVED from the key set (base b on a side exactly when the canonical form of the neighbour through b is a key) and a clone of its payload; like the slice entry point, under the hypothesis that this derived table meets the from-hash preconditions (backlinks_ok, canon_keys) in whatever slot order; distinct input k-mers are a precondition (its assert_eq! panics otherwise); observed while reading: it canonicalises with min_rc even when stranded",
        "'an extension recorded for BOTH of them': proved for the k-mer the walk steps FROM (the base is in its extension set, and is its sole extension on that side) and as 'exactly one extension on the facing side' for the k-mer stepped TO; that this one facing extension names the first k-mer is a property of the input table (extension symmetry), which the code does not check - lemma_step_both (unit buildnode) proves it from step_rec for every table whose extensions are symmetric between present k-mers (hypothesis sym_occ, stronger than the entry point's precondition backlinks_ok)",
        "BaseGraph::finish is proved relative to boomphf's assumed contract (C19, unit graphfn); PackedDnaStringSet::add is generic over IntoIterator + Borrow - proved at two instances of its item source (unit packedset, R21): Vec<u8> / u8, and `&VecDeque<u8>` / &u8 - the one compress_kmers uses (`graph.add(&seq, ..)`, with `for b in sequence` read as `sequence.iter()`); in unit buildnode it is used by contract: the statement is about the node sequences handed to BaseGraph::add, the accessors that read them back are proved in unit packedset",
        "bounded cross-check of the whole pipeline is intractable: boomphf's MPHF construction keeps CBMC busy > 50 min even for 3 concrete keys"],
    "trust": VERUS_TRUST + GRAPH_TRUST + [SEAM_NOTE,
        "CompressionSpec::join_test / reduce are deterministic functions of their arguments (join_spec, reduce_spec)",
        "precondition backlinks_ok (extensions reference only present k-mers, symmetrically); precondition canon_keys (an unstranded table stores canonical k-mers)",
        "std: iterating &VecDeque<u8> yields its elements front to back (axiom_iter_seq_deque); D::clone is only known through vstd's `cloned` relation",
        "PackedDnaStringSet is abstract in unit buildnode (list of stored sequences; `add` appends the iterated bases): its accessors are proved on the real struct in unit packedset, `add` by the bounded Kani harness d_packed_add_b only"],
    "level_text": "The statement is a machine-checked POSTCONDITION of the real CompressFromHash::compress_kmers and of the public entry points compress_kmers_with_hash and compress_kmers (from a slice; for the table BoomHashMap2::new builds from it, in whatever slot order) (Verus, unbounded, bodies extracted from /repo on every run; graph_post in verus/units/buildnode.rs.tmpl): there is an assignment owner[j][o] of table slots to (node j, offset o) such that (a) window o of node j, canonicalised when unstranded, IS the table key of slot owner[j][o] - no foreign k-mer; (b) different positions hold different slots and every slot occurs - each input k-mer in exactly one node at exactly one offset; (c) a node of m k-mers has m+K-1 bases and consecutive windows are linked by an extension recorded for the k-mer nearer the seed, the sole extension on both facing sides; (d) each node's payload is the caller's reduction folded over exactly the payloads of the slots the node spells (seed first, then leftwards, then rightwards). It rests on contracts of every function in between, all on real bodies: try_extend_kmer (link predicate, iff), extend_kmer (every step a link; exactly the seed and the walked k-mers leave the available set), the WHOLE of build_node (both walks, both assembly loops over the walked path, terminal extensions; rules R16/R17), BaseGraph::new/add; and on a ghost theory (orientation chain on the seed's strand, windows of the spelled sequence, slot bookkeeping) proved as lemmas in the same run.",
    "level_note": "Preconditions: the table is well formed (distinct keys of K bases), its keys are canonical when unstranded, and extensions reference only present k-mers symmetrically (backlinks_ok; makes the unreachable!() branch unreachable). Assumed, not proved: boomphf BoomHashMap2 lookup/get_key, bit_set::BitSet, PackedDnaStringSet::add with iteration over &VecDeque (bounded Kani stand-in), D::clone (vstd `cloned` relation), the trait-level Kmer seam (discharged per shipped type by Kani). BoomHashMap2::new is assumed to return exactly the given triples in some slot order. compress_kmers_no_exts is listed under undecided_clauses.",
}

PROPS["C02"] = {
    "title": "Nodes are exactly the maximal unbranched paths",
    "kani": lambda tier: kfam(["k_min_rc", "k_extend_left", "k_extend_right"], tier)
        + exts(["x_num_ext_dir", "x_get_unique_extension", "x_single_dir", "x_has_ext", "x_dir"]),
    "verus": [("compress", None), ("buildstep", r"^CompressFromHash::(left_step|right_step|left_terminal|right_terminal)$"),
              ("buildnode", BUILDNODE_FNS), ("compgraph", COMPGRAPH_FNS)],
    "bounded": lambda tier: [],
    "design_ref": "DESIGN.md §6 C02",
    "undecided": [
        "k-mer level, whole run (unit buildnode): 'only if' IS a postcondition of the real compress_kmers (step_rec inside graph_post: consecutive k-mers of every output node are joined by a link that is the sole extension on both facing sides, between k-mers that are not their own reverse complement (unstranded), accepted by the join predicate), and so is MAXIMALITY at the node ends (end_ok inside graph_post: if an end k-mer of a node could still link outwards, the k-mer it would link to is spelled by the same or an earlier node), from which 'no two output nodes could be merged' follows as the proved lemma lemma_no_merge (two nodes whose facing ends could link to each other are one node - an isolated cycle cut once). NOT decided: the full 'if' for a link that enters a node at an interior k-mer through the side the walk came from (needs extension symmetry of the input), and uniqueness of the decomposition",
        "node level (CompressFromGraph): try_extend_node is proved sound in both directions relative to the link that find_link resolves (Unique only along an acceptable link, Terminal only if the node may not leave or the resolved link is not acceptable); the lookup result itself is only specified relationally (link_post)"],
    "trust": VERUS_TRUST + GRAPH_TRUST + [SEAM_NOTE,
        "CompressionSpec::join_test / reduce are deterministic functions of their arguments (join_spec, reduce_spec)",
        "precondition backlinks_ok: whenever a k-mer lists a base leading to a present non-palindromic neighbour, that neighbour lists at least one base on the facing side (the formal content of 'extensions reference only present k-mers'); it makes the panic!(\"unreachable\") branch provably unreachable"],
    "level_text": "The link predicate of the statement is a machine-checked postcondition of the real CompressFromHash::try_extend_kmer: it returns Unique IF AND ONLY IF the k-mer has exactly one extension on that side, is not a palindrome (unstranded), the (canonicalised) neighbour is in the table and still available, is not a palindrome, has exactly one extension on the facing side and the join predicate accepts; and then names that neighbour, the flipped/unflipped walking direction and the far-side extensions. extend_kmer is proved (with termination) to walk only such links, to remove exactly the seed and the walked k-mers from the available set, and to stop only where the predicate fails (Verus, unbounded, on the extracted bodies). The bodies of build_node's two path loops (rule R15) are proved to add exactly one base - the first resp. last base of the step's k-mer as spelled on the seed's strand - and to fold exactly that k-mer's payload with the caller's reduction. WHOLE RUN (unit buildnode, postcondition graph_post of the real compress_kmers / compress_kmers_with_hash / compress_kmers-from-a-slice): every pair of consecutive k-mers of every output node is joined by such a link (step_rec), and an end k-mer of a node that could still link outwards would link to a k-mer spelled by the same or an earlier node (end_ok) - from which lemma_no_merge proves that two nodes whose facing ends could link to each other are one and the same node.",
    "level_note": "Partial claim: besides the per-step and per-walk contracts, the whole-run statement of the real compress_kmers (graph_post, see C01) carries the 'only if' direction (every pair of consecutive k-mers of a node is a link) and maximality at the node ends (end_ok; lemma_no_merge: no two output nodes could be merged); the full 'if' for links entering a node at an interior k-mer and uniqueness of the decomposition are not decided - listed in undecided_clauses. Preconditions as for C01 (well-formed table, canonical keys when unstranded, backlinks_ok). Trusted: Verus/Z3, extractor rules, abstract BoomHashMap2/BitSet contracts, the V<->K seam for k-mer and Exts primitives.",
}

PROPS["C03"] = {
    "title": "Extensions and edges denote exactly the real adjacencies, symmetrically",
    "kani": lambda tier: exts(EXTS_ALL) + kfam(["k_rc", "k_extend_left", "k_extend_right"], tier),
    "verus": [("graphfn", r"^(DebruijnGraph::|Node::|BaseGraph::)|^lemma_(merged_shape|merged_windows|rc_first|rc_last|overlap_rc|rc_bases|ext_bases2|path_total_mono)$"), ("nodesall", r"^Node::(l_edges|r_edges|edges)$"),
              ("prune", r"^(remove_censored_exts_whole|remove_censored_exts_sharded_whole|pruned_exts|pruned_exts_sharded|lemma_search_table|lemma_search_list|lemma_table_has_keys)$"),
              ("maxpath", r"^commit_step$")],
    "bounded": lambda tier: [("filter::verif::f_remove_censored_3", "3 table entries, Kmer4, both strandedness values"),
                             ("filter::verif::f_remove_censored_sharded", "2 valid entries, 3 shard k-mers, Kmer4")],
    "design_ref": "DESIGN.md §6 C03",
    "undecided": [
        "set of resolvable edges == set of observed (K+1)-mers (needs the C05 kernel and C01)",
        "global symmetry u->v => v->u (a property of the constructed graph, not of one call)",
        "max_path / max_path_beam (f32 scores, closures capturing closures, candidate scan over SmallVec edges) as wholes; of max_path the step that commits the chosen successor IS under contract (unit maxpath, rule R15: the successor is taken only if not yet used, is marked used and put on the proper end with the proper orientation - the step invariant behind 'no node repeated in a best path'); sequence_of_path IS proved as a whole function - its result spells path_seq_of, the sequence the walk theorem is about - at the instance `path.iter()` over a Vec of entries of its generic item source (R21 instantiation; R20 / R17 desugar enumerate and the reference pattern); its loop body is additionally under contract on its own (graphfn::path_step)",
        "remove_censored_exts(_sharded) ARE under contract as whole functions (unit prune: every entry keeps key and payload and keeps an extension exactly when it had it and the target k-mer is a table key - sharded: or is not a k-mer of this shard at all), but only relative to the ASSUMED contracts of the two std binary searches and the hypothesis that the slices are sorted as those searches require (token keys_sorted; for the table: a function of its keys only)"],
    "trust": VERUS_TRUST + GRAPH_TRUST + [SEAM_NOTE,
        "std slice binary searches (binary_search_by_key, binary_search): on a slice sorted as the search requires they answer Ok exactly when an element with that key / value exists (assumed; sortedness is the callers' obligation, token keys_sorted); k-mers are equal exactly when they spell the same bases (axiom_kmer_eq; Kani family k_eq_ord)",
        "graph well-formedness (DebruijnGraph::wf): every node has >= K bases; left_order/right_order map exactly the first/last k-mers of the nodes to their ids"],
    "level_text": "find_link is proved to return Some((id, side, flip)) only for a node whose terminal k-mer on `side` equals the query (its reverse complement when flip), with (dir, side, flip) one of the four consistent shapes, flip only when unstranded and only when no same-strand match exists, and None exactly when no node end matches; find_edges (and the public Node::l_edges / r_edges / edges) returns only resolved links of the node's own extension bases and one for every extension base that resolves; get_valid_exts / fix_exts are proved exact: an extension is kept iff it was present and resolves to a valid (non-censored) node, dropped only if unresolvable or censored, and nothing but the extension vector changes (Verus, unbounded, real bodies incl. the check_node closure). remove_censored_exts and remove_censored_exts_sharded are proved, as whole functions, to leave keys and payloads untouched and to keep an extension exactly when it was present and its target k-mer is a key of the table (sharded: or is not among the shard's k-mers), given std's binary searches on sorted slices. THE WALK THEOREM (lemma_walk_spells, with lemma_edge_overlap / lemma_merged_windows): for any walk along reported edges - each next (node, arrival side) an edge reported for the previous node on the side the walk leaves it through - the sequence that sequence_of_path's proved loop step folds to contains, for every walked node and every offset, that node's k-mer (read in walking orientation) at a position computed from the preceding nodes' lengths, the position ranges of consecutive nodes are adjacent, and together they cover every k-mer of the spelled sequence: its k-mers are precisely the walked nodes' k-mers in order.",
    "level_note": "Partial claim (see undecided_clauses). Trusted: Verus/Z3, extractor rules, abstract BoomHashMap/BitSet/SmallVec contracts, the V<->K seam. Table pruning (remove_censored_exts, remove_censored_exts_sharded) is proved on the real bodies relative to the assumed std binary-search contracts (sortedness is the callers' obligation); the bounded Kani harnesses remain as cross-checks and fallbacks.",
}

PROPS["C05"] = {
    "title": "K-mer counting/filtering equals reference grouping for any pass count",
    "kani": lambda tier: ["filter::verif::%s::f_bucket" % t for t in (ALL_TYPES if tier == "thorough" else QUICK_TYPES) if K_OF[t] >= 4]
        + kfam(["k_canon", "k_min_rc"], tier, 4) + exts(["x_rc", "x_add", "x_merge", "x_mk"]),
    "verus": [("passplan", None), ("obskernel", None), ("summarize", None), ("groupkernel", r"^(bucket_step|lemma_run_is_class|lemma_run_maximal|lemma_runs_cover|lemma_find_run|lemma_off_mono)$"), ("kmeriter", r"^KmerExtsIter::next$|^Vmer::iter_kmer_exts$")],
    "bounded": lambda tier: [("filter::verif::f_count_filter", "<= 6 observations")],
    "design_ref": "DESIGN.md §6 C05",
    "undecided": [
        "the grouping step IS under contract per bucket (unit groupkernel, the real body of `for mut kmer_vec in kmer_buckets`, rule R15 + R21): each distinct k-mer of the bucket is summarised exactly once, over exactly its observations, in input order, and is recorded iff requested / accepted - RELATIVE TO three assumed library meanings stated as seams: slice::sort_by_key is a stable sort (a permutation that makes equal keys contiguous and keeps their input order), itertools group_by yields the maximal runs of equal consecutive keys, KmerSummarizer::summarize is a function of its items; that the buckets together hold every observation exactly once is obskernel + passplan, lemma_fold_is_subseq (proved) shows that folding the observation step over the input leaves in a bucket the in-order subsequence of the observations whose k-mer falls into it, and lemma_bucket_class_is_global (proved) carries a k-mer's class inside its bucket to its class in the whole input; that the two outer loops of filter_kmers are exactly this fold is by inspection (they are not extracted); the closing BoomHashMap2::new is boomphf (assumed: stores the given triples)",
        "the two outer loops (over passes and reads) are not under contract; the payload `d.clone()` is unspecified; what happens to a group AFTER summarize is (summarize::record_group, rule R15: the k-mer joins the all-k-mers list exactly when requested, and (k-mer, extensions, summary) join the table exactly when the summarizer accepted)",
        "CountFilter::summarize and CountFilterSet::summarize ARE proved as whole functions (unit summarize: count = number of observations capped at 65535, accepted iff count >= threshold, extensions = union over all observations; the set summariser returns exactly the payloads observed) - at the instance F = by-value iterator of a Vec of their generic item source (R21), CountFilterSet for at most i32::MAX observations (its counter is an i32) and relative to assumed contracts of Vec::sort / Vec::dedup (both keep the set of values)",
        "CountFilterSet::summarize has no bounded cross-check on the real generic function (Vec sort + dedup is intractable for CBMC even at 3 observations: 12 GB, > 40 min)"],
    "trust": VERUS_TRUST + [SEAM_NOTE, "R15: the pass-planning statement range of filter_kmers is verified inside a wrapper function of (kmer_mem, max_mem); max_mem > 0, kmer_mem < usize::MAX"],
    "level_text": "Decided parts: (1) pass planning - the real statement range of filter_kmers is proved to produce between 1 and 256 non-empty consecutive bucket ranges starting at 0 whose last one reaches 256, and a lemma shows every bucket 0..255 falls in exactly one pass under the half-open test, for every memory budget (Verus, unbounded); (2) bucket() is the rank of the first four bases, < 256 and monotone in k-mer order, for all k-mer values (Kani, complete); (3) per-observation canonicalisation with extension flip (Kani, complete) and the REAL body of the innermost observation loop of filter_kmers (rule R15, loop-body variant): each observation is pushed exactly once, under its canonical key, into bucket(key), iff that bucket belongs to the current pass, with extensions reverse-complemented exactly when the key is the opposite strand, and no other bucket is touched (Verus, unbounded); (4) the k-mer-with-extensions iterator pairs each k-mer with its true flanks and uses boundary extensions only at the ends (Verus, unbounded); (5) the REAL body of the per-bucket loop (sort, group, summarize, record; rules R15 + R21): every distinct k-mer of a bucket is summarised exactly once over exactly its observations in input order and recorded iff requested / accepted, for every bucket content (Verus, unbounded; relative to the assumed meanings of sort_by_key, group_by and summarize); (6) CountFilter::summarize and CountFilterSet::summarize as whole functions at the Vec instance of their item source: count capped at 65535, threshold test, union of extensions, exactly the payloads observed (Verus, unbounded).",
    "level_note": "Partial claim: the grouping kernel is decided relative to the assumed meanings of sort_by_key / group_by / summarize (see undecided_clauses). Both summarizers are proved as whole functions at the Vec instance of their generic item source (R21).",
}

PROPS["C06"] = {
    "title": "Strand symmetry when unstranded, strand separation when stranded",
    "kani": lambda tier: kfam(["k_canon", "k_min_rc", "k_rc"], tier) + exts(["x_rc", "x_complement", "x_reverse"]),
    "verus": [("graphfn", r"^DebruijnGraph::(find_link|search_kmer)$"), ("compress", r"^CompressFromHash::try_extend_kmer$"), ("obskernel", None),
              ("buildnode", r"^CompressFromHash::(compress_kmers|build_node)$|^Ctx::lemma_chain$")],
    "bounded": lambda tier: [],
    "design_ref": "DESIGN.md §6 C06",
    "undecided": ["invariance of the whole table / graph under reverse-complementing a subset of reads: a relational property of two runs through the undecided grouping kernel (C05) and the global construction (C01)"],
    "trust": VERUS_TRUST + GRAPH_TRUST + [SEAM_NOTE],
    "level_text": "Per-observation strand symmetry: on the real min_rc_flip + Exts::rc, an observation (k, e) and its reverse-complement observation (rc k, rc e) are proved to contribute the identical (key, extensions) pair (extensions unless k is its own reverse complement) and the key is the lexicographic minimum, for all k-mer values of every shipped type and all 256 extension sets (Kani, complete). Strand separation: find_link is proved to consult the reverse complement only when unstranded (flip => !stranded) and try_extend_kmer to use the un-canonicalised neighbour and unchanged direction when stranded (Verus). Whole-run, at the compression stage (graph_post of the real compress_kmers, unit buildnode): in stranded mode every k-mer spelled by an output node IS a table key as given - no reverse complement is ever spelled or looked up (lemma_chain: the walk direction never flips when stranded) -, in unstranded mode it is the key's canonical form on whichever strand the node runs.",
    "level_note": "Partial claim (see undecided_clauses).",
}

PROPS["C09"] = {
    "title": "Graph re-compression and node censoring are exact",
    "kani": lambda tier: exts(["x_set", "x_has_ext"]),
    "verus": [("graphfn", r"^DebruijnGraph::(fix_exts|get_valid_exts|find_link|search_kmer|get_node|len)$|^Node::"),
              ("compgraph", COMPGRAPH_FNS)],
    "bounded": lambda tier: [],
    "design_ref": "DESIGN.md §6 C09",
    "undecided": [
        "k-mer level: the output sequence of a node is DEFINED as what the proven step of sequence_of_path folds to over the node's path (path_seq_of; that the real sequence_of_path returns exactly this fold is proved in unit graphfn, at the slice-iterator instance of its generic item source - compress_graph calls it with `path.iter()` of a VecDeque), consecutive path entries are proved to overlap by K-1 bases, and lemma_merged_windows / lemma_ncompress_kmers prove that the output node then spells exactly the k-mers of its path's old nodes, entry by entry, nothing more; what is NOT stated as one formula is the multiset equality 'k-mers of the result == k-mers of the non-censored nodes' (it is the conjunction of that lemma with npartition_ok)",
        "maximality of the merged paths as a whole-run statement, idempotence, agreement with the direct route. Per merged node the link facts ARE part of build_node's contract (nbuild_post: every step of both walks was a link that find_link resolves to an available, non-palindromic, join-accepted node with a sole facing extension - nstep_ok -, and both walks stopped only where the node may not leave or the resolved link is not acceptable - nstop), but they are not lifted into the whole-run statement (orientation bookkeeping of the assembled path)",
        "BaseGraph::finish (parallel boomphf index construction) and the closing debug_assert!(is_compressed) are outside the Verus subset; the final fix_exts(None) is covered by fix_exts' own contract"],
    "trust": VERUS_TRUST + GRAPH_TRUST + [SEAM_NOTE],
    "level_text": "NODE-LEVEL whole-run statement as a machine-checked postcondition of the real compress_graph up to (not including) finish() (Verus, unbounded; wrapper compress_graph_core around the statement range, rule R15; ncompress_post in verus/units/compgraph.rs.tmpl): there is an assignment of old-graph nodes to (output node, position) such that every output node is a non-empty path of pairwise different SURVIVING nodes (not censored), no old node lies on two paths or twice on one, EVERY surviving node lies on some path, each output sequence is what sequence_of_path spells for that path - consecutive old nodes on it overlap by K-1 bases, so (lemma_merged_windows, lemma_ncompress_kmers) it spells exactly the k-mers of those old nodes, in order, and nothing else -, and each output payload is the caller's reduction folded over exactly the payloads of the path's nodes (seed first, then leftwards, then rightwards). Underneath, all on real bodies: the availability loops (all nodes minus the censor list), fix_exts(Some(&available)) (exact pruning: no extension left pointing at a censored or absent node, nothing else dropped) and the lemma that after it every listed extension resolves; the WHOLE of the node-level build_node (both walks, both assembly loops, terminal extensions; rules R16/R17); extend_node (terminates, takes exactly the start node and the walked nodes out of the available set, returns the last node's far extensions); try_extend_node (panic-free, Unique only along a link that find_link resolves to an available, non-palindromic, join-accepted node with a sole facing extension; Terminal otherwise); BaseGraph::new/add.",
    "level_note": "Hypothesis (stated in the contract where it is used, sym_hyp): in the pruned graph a link between two surviving nodes is listed from both ends - without it try_extend_node's panic!(\"unreachable\") is reachable. Assumed: BoomHashMap end indices (graph well-formedness), BitSet, sequence_of_path (abstract), PackedDnaStringSet::add and iteration over &DnaString, D::clone via vstd `cloned`, the Kmer seam. Everything at k-mer granularity is listed under undecided_clauses.",
}

PROPS["C08"] = {
    "title": "Shard assignment is a pure, strand-symmetric function of the k-mer",
    "kani": lambda tier: kfam(["k_min_rc", "k_to_u64", "k_rc"], tier, 2, 8) + exts(["x_from_slice_bounds"]) + lmer(["l_from_slice"], tier),
    "verus": [("scan", r"^(Scanner::(scan|lemma_same_bucket|lemma_same_bucket_rc|lemma_min_over_kmer|lemma_result|lemma_iv_mid|lemma_iv_last|lemma_pair)|Exts::from_slice_bounds|lemma_sub_window|lemma_sub_window_rc|lemma_flank_bits)$"),
              ("mspscore", None), ("msppiece", r"^piece_of$|^shards_of$|^MspInterval::bucket$|^VmerFromSlice::from_slice$"), ("extsdna", r"^Exts::from_dna_string$|^lemma_flank_bits$")],
    "bounded": lambda tier: [("msp::verif::m_msp_sequence_short", "msp_sequence on reads of exactly k = 3, and k - 1, bases (P = Kmer2, DnaBytes pieces)")],
    "design_ref": "DESIGN.md §6 C08",
    "undecided": [
        "msp_sequence as a whole (unwrap_or_else, into_iter().map().collect()): its three ingredients are under contract separately - the score closure (unit mspscore), Scanner::scan (C07) and the REAL body of the piece closure (unit msppiece, rule R15: bucket = the interval's bucket, piece = the exact substring at (start, len) - Vmer::from_slice's REAL default body is proved in the same unit (rule R20 desugars its enumerate) against the trait-level new / set_mut contracts -, boundary extensions = the read's flanking bases) - and the closing expression that applies the piece closure to every interval (msppiece::shards_of, R15 + R21: `into_iter().map(f).collect()` as the seam map_collect_vec, f the real closure): the shards returned are, in order, the pieces of the scanner's intervals; the head of the function (default permutation, `unwrap_or_else`, building the Scanner) is covered only by the bounded stand-in on reads of k and k-1 bases (6 bases already exhaust CBMC)",
        "the glue between the pieces (msp_sequence passes exactly this closure to Scanner::new; the default permutation 0..4^p is a permutation) is by inspection, not a discharged obligation"],
    "trust": VERUS_TRUST + [SEAM_NOTE],
    "level_text": "Proved as lemmas over the verified contract of the real Scanner::scan (C07): for two scans - of any two reads - whose score functions agree and identify p-mers up to a class, two occurrences of the same k-mer (lemma_same_bucket) or an occurrence and a reverse-complement occurrence under a strand-symmetric score (lemma_same_bucket_rc) receive minimizers of the same class, hence the same bucket id (bucket = rank of the canonical minimizer; min_rc / to_u64 proved by Kani for all p-mer values). Exts::from_slice_bounds and Exts::from_dna_string are proved to return exactly the read's two flanking bases and none at a read end, for every length (Verus, unbounded, real bodies). The REAL score closure of msp_sequence (statement extracted by rule R15) is proved to compute perm[rank x] resp. min(perm[rank x], perm[rank rc x]), and two lemmas show that such a score over an injective table is strand symmetric and identifies p-mers up to reverse complement - the hypotheses of the bucket lemmas. The REAL body of msp_sequence's piece closure (rule R15) is proved to turn an interval into (its bucket, the read's flanking bases as boundary extensions, the exact substring at (start, len)).",
    "level_note": "Partial claim (see undecided_clauses): of msp_sequence the score closure, the scan, the piece closure and the closing map-collect expression are under contract, its head (default permutation, building the Scanner) is not; Vmer::new / set_mut are the trait-level seam (Kani families l_new / l_set_mut per Lmer type). Trusted: Verus/Z3, extractor rules, the V<->K seam.",
}

PAIRED_KANI = {
    "verus:dnaslice::DnaStringSlice::hamming_dist": "dna_string::verif::d_slice_hamming_1024",
    "verus:dnaslice::DnaStringSlice::fmt_debug": "dna_string::verif::d_slice_render_3",
    "verus:dnaslice::DnaStringSlice::fmt_display": "dna_string::verif::d_slice_render_3",
    "verus:nodeiter::NodeKmerIter::nth": "graph::verif::g_node_iter_seq",
    "verus:nodeiter::NodeKmerIter::next": "graph::verif::g_node_iter_seq",
    "verus:scan::Scanner::scan": "msp::verif::m_scan_p2_k2m5",
}

COMMON_TRUST = [
    "rustc lowers the crate to the MIR that Kani verifies; CBMC 6.11 and its SAT back end are sound",
    "Kani models machine arithmetic bit-precisely (overflow, shift and bounds checks stay on): integers are NOT idealised",
]


HOOK_COMMITS = ["b99dd0a", "cace3e3"]
FIX_COMMITS = ["fbab396", "2f3f16f", "a14fcdf", "43ef2dd", "faf6cb2"]

PROPS["C19"] = {
    "title": "Index construction is schedule-independent and lookups are exact",
    "kani": lambda tier: [],
    "verus": [("graphfn", r"^BaseGraph::(finish_serial|finish|finish_serial_indices|finish_indices|lemma_index_ok|lemma_lookup_determined|len)$|^DebruijnGraph::(search_kmer|find_link|get_node|len)$|^PackedDnaStringSet::(get|len)$")],
    "bounded": lambda tier: [],
    "design_ref": "DESIGN.md §6 C19",
    "undecided": [
        "schedule independence and run-to-run determinism of the parallel builder: boomphf's BoomHashMap::new_parallel (rayon) is ASSUMED to return exactly the given (key, value) pairs in some slot order, like the serial BoomHashMap::new - that assumption IS the clause 'for every thread count and scheduling'; Kani has no threads and the MPHF construction is third-party code outside both verifiers",
        "'identical to the serially built one': proved for end lookups as the lemma lemma_lookup_determined (two graphs over the same nodes that both satisfy the index contract - finish() vs finish_serial(), or two runs - admit only identical search_kmer answers); for find_link / edge lists it follows from their contracts being functions of those lookups, not stated as a separate relational theorem; node order is that of BaseGraph and untouched by finish",
        "finish_serial and finish ARE proved as whole functions (the result is the same base graph with two indices, and is well formed); the one thing replaced is their first statement's `(0..n as u32).collect()`, a seam (R21) with the assumed meaning `0, 1, .., n-1 in order`; fewer than 2^32 nodes is a precondition (`n as u32`)",
        "graphs of >= 10^5 nodes, thread-pool sizes: nothing here depends on sizes (unbounded proof), but nothing here runs threads either"],
    "trust": VERUS_TRUST + GRAPH_TRUST + [SEAM_NOTE,
        "boomphf BoomHashMap::{new, new_parallel, get}: a finite map holding exactly the given pairs, with key-verified lookup (assumed; for new_parallel this includes schedule independence)"],
    "level_text": "Partial claim - the clause 'a k-mer is found as a node end exactly when some node starts or ends with it, never otherwise': (1) the two index-building statements of BOTH BaseGraph::finish_serial and BaseGraph::finish (rule R15 statement ranges on the real bodies: the loops collecting every node's first / last k-mer through PackedDnaStringSet::get + first_kmer / last_kmer, and the hash-map constructor call) are proved to produce a well-formed graph - every node's first (last) k-mer maps to that node's id and no other key is present (DebruijnGraph::wf / index_ok), given node sequences of at least K bases, fewer than 2^32 nodes and pairwise different end k-mers (Verus, unbounded); (2) on a well-formed graph the real search_kmer returns Some(id) only for a node whose end on that side spells the query and None only if no node end does, and find_link resolves exactly the facing / reverse-complement end (Verus, unbounded); (3) lemma_lookup_determined: any two graphs over the same node set that satisfy the index contract - whichever builder, thread count or schedule produced them - admit only identical answers to every end lookup.",
    "level_note": "PARTIAL: schedule independence itself is assumed inside BoomHashMap::new_parallel's contract, not decided (see undecided_clauses). Trusted: Verus/Z3, extractor rules, the abstract boomphf contracts, the V<->K seam.",
}

PROPS["C20"] = {
    "title": "Exports and persistence are faithful",
    "kani": lambda tier: [],
    "verus": [("gfalinks", r"^(gfa_links|gfa_s_line|DebruijnGraph::gfa_all_nodes|DebruijnGraph::gfa_all_nodes_tagged|DebruijnGraph::node_to_gfa|lemma_flat_frame|DnaStringSlice::to_dna_string)$"),
              ("jsonlinks", r"^DebruijnGraph::(json_links_step|json_last_with_links|json_nodes_step)$|^Node::(edge_json_step|edges_to_json)$")],
    "bounded": lambda tier: [],
    "design_ref": "DESIGN.md §6 C20",
    "undecided": [
        "serde round trips of k-mers, DNA strings, extension sets and graphs (derive output, third-party code), the contents of the node objects and the `rest` part of the JSON export, the header of the GFA export, byte-level well-formedness of anything written: string / byte-grammar reasoning neither verifier supports - NOT decided",
        "the GFA link clause is decided per node (which adjacencies node u writes); 'every adjacency exactly once over the whole file' follows from it only together with edge symmetry of the graph (if u lists v, v lists u - C03's undecided global symmetry) by the argument written next to must_list in verus/units/gfalinks.rs.tmpl; the exemption for palindromic single-k-mer nodes is not modelled (such a node may list a link twice, which the statement allows)",
        "node_to_gfa IS proved as a whole function (R21: `w: &mut dyn Write` is the line-log sink; R19 records each writeln! with a declared format string): on success it has appended exactly one block - the S line with the node's id and sequence text (the tag text is the closure's answer, unspecified) followed by the selected L lines of the left and of the right edges - and the node loop of write_gfa appends one such block per node in id order; I/O errors end the function early and nothing is claimed then; the text the format strings render to is core::fmt's business"],
    "trust": VERUS_TRUST + GRAPH_TRUST + [SEAM_NOTE,
        "core::fmt renders an integer / a string slice argument of writeln! as itself, one line per call (rule R19's line log)",
        "Node::l_edges / r_edges are functions of the graph and the node (edges_of); their relational contract is proved in unit nodesall"],
    "level_text": "Partial claim, two clauses. (1) JSON export, separators of the \"links\" array: one trip of the links loop of the real DebruijnGraph::to_json_rest (rule R15 loop body; the whole body of Node::edges_to_json is proved separately - edges_to_json, rules R20 + R17 -: one link object per right-going edge with the right source, target and arrival side, commas exactly between them, and the result says whether anything was written) is proved to follow a node's group with a separator EXACTLY when a later node contributes a group too, and the preceding loop (R15) to compute the last node that has links - so the array has no leading, doubled or trailing comma for any graph, with or without links on the last node (Verus, unbounded). Also: one trip of the nodes loop (the node's object, then a separator exactly when another node follows: every node once, in id order) and one trip of the loop of Node::edges_to_json (the link object carries the right source, target and arrival side 'L'/'R', followed by a comma exactly when another edge follows). (2) GFA export: the node loop of write_gfa exports every node exactly once in id order (given node_to_gfa's assumed whole-function behaviour); the S line of a node carries its id and its sequence rendered as ACGT text (to_dna_string proved); and the link clause, per node: the two loops of the real DebruijnGraph::node_to_gfa that write the L lines (rule R15 statement range) are proved to write, in order, exactly one line `L u - v t (K-1)M` for every left edge of u whose target id is >= u and exactly one line `L u + v t (K-1)M` for every right edge whose target id is > u OR which is a right-side hairpin (target u, arriving at u's right end), with t = '+' when the link arrives at v's left end and '-' at its right end - the canonical-emitter rule under which every adjacency, including self-links on either side, is listed exactly once (Verus, unbounded).",
    "level_note": "PARTIAL: the per-node blocks of the GFA export (S line with id and sequence text, then exactly the selected L lines; one block per node in id order) and the link groups / separators of the JSON links array; serde, the rest of the JSON export, the rendering of format strings and byte-level well-formedness are not decided (see undecided_clauses). Two genuine defects were found by these obligations and repaired (known_findings.json F4, F5).",
}

NOT_APPLICABLE = {
    "C04": "a relational equivalence between two whole pipelines (sharded vs. one pass). Its ingredients are decided here - a k-mer and its reverse complement always land in the same shard (C08), each shard's compression is a lossless partition (C01), re-compression keeps exactly the k-mers of the surviving nodes and folds payloads over them (C09), pruning removes exactly the dangling extensions (C03) - but the conclusion 'the same partition of k-mers into nodes' additionally needs UNIQUENESS of the maximal-unbranched-path decomposition (C02's undecided clause) and the two outer loops of filter_kmers (C05's undecided clause; its per-bucket grouping kernel is decided only relative to assumed sort / group_by meanings), and BaseGraph::combine (generic Iterator of graphs, Vec::extend) is outside the Verus subset; no contract within reach expresses the equality of two runs (DESIGN.md §6 C04)",
}
