"""Property -> obligations table (which contracts decide which property)."""

ALL_TYPES = ["kmer64", "kmer48", "kmer40", "kmer32", "kmer31", "kmer30", "kmer24", "kmer20", "kmer16",
             "kmer15", "kmer14", "kmer12", "kmer10", "kmer8", "kmer6", "kmer5", "kmer4", "kmer3", "kmer2"]
# one representative per (storage width x full/partial x odd K)
QUICK_TYPES = ["kmer64", "kmer48", "kmer32", "kmer31", "kmer20", "kmer16", "kmer15", "kmer8", "kmer5", "kmer4",
               "kmer3"]
K_OF = {t: int(t[4:]) for t in ALL_TYPES}


def kfam(fams, tier, min_k=0, max_k=64):
    types = ALL_TYPES if tier == "thorough" else QUICK_TYPES
    out = []
    for t in types:
        if not (min_k <= K_OF[t] <= max_k):
            continue
        for f in fams:
            if f == "k_to_u64" and K_OF[t] > 32:
                continue
            out.append("verif::kmers::%s::%s" % (t, f))
    return out


def exts(names):
    return ["verif::exts::%s" % n for n in names]


def tables(names):
    return ["verif::tables::%s" % n for n in names]


C10_FAMS = ["k_len", "k_get", "k_set_mut", "k_set_slice_mut", "k_rc", "k_extend_left", "k_extend_right", "k_empty",
            "k_from_bytes", "k_from_ascii", "k_from_u64", "k_to_u64", "k_hamming", "k_at_gc"]
C11_FAMS = ["k_eq_ord", "k_hash",
            # every value-producing operation re-establishes `inv` (unused storage bits zero)
            "k_set_mut", "k_set_slice_mut", "k_rc", "k_extend_left", "k_extend_right", "k_empty", "k_from_bytes",
            "k_from_ascii", "k_from_u64", "k_min_rc"]
EXTS_ALL = ["x_rc", "x_complement", "x_reverse", "x_set", "x_has_ext", "x_num_ext_dir", "x_get_unique_extension",
            "x_single_dir", "x_merge", "x_from_single_dirs", "x_add", "x_mk", "x_get", "x_dir",
            "x_from_slice_bounds"]
TABLES_ALL = ["t_base_to_bits", "t_dna_only_base_to_bits", "t_bits_to_ascii", "t_complement"]


PROPS = {
    "C10": {
        "title": "Packed k-mers behave as length-K strings",
        "kani": lambda tier: kfam(C10_FAMS, tier) + tables(["t_bits_to_ascii", "t_base_to_bits"]),
        "verus": [],
        "bounded": lambda tier: [],
        "design_ref": "DESIGN.md §6 C10",
        "undecided": [],
    },
    "C11": {
        "title": "K-mer equality, order and hash are those of the string",
        "kani": lambda tier: kfam(C11_FAMS, tier),
        "verus": [],
        "bounded": lambda tier: [],
        "design_ref": "DESIGN.md §6 C11",
        "undecided": [],
    },
}

COMMON_TRUST = [
    "rustc lowers the crate to the MIR that Kani verifies; CBMC 6.11 and its SAT back end are sound",
    "Kani models machine arithmetic bit-precisely (overflow, shift and bounds checks stay on): integers are NOT idealised",
]
