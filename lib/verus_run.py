"""Extract real functions from /repo into Verus units and discharge them."""
import json
import os
import re
import subprocess
import sys
import time

VERIF = os.path.dirname(os.path.dirname(os.path.abspath(__file__)))
REPO = os.environ.get("DEBRUIJN_REPO", "/repo")
sys.path.insert(0, os.path.join(VERIF, "verus"))
import extract  # noqa: E402

OUT = os.path.join(VERIF, ".cache", "verus")

FAILED_PAT = re.compile(
    r"postcondition not satisfied|precondition not satisfied|assertion failed|invariant not satisfied|"
    r"possible arithmetic underflow/overflow|possible division by zero|possible bit shift underflow/overflow|"
    r"decreases not satisfied|index out of bounds|loop invariant|recommendation not met|"
    r"failed this postcondition|failed precondition|cannot show", re.I)
UNDECIDED_PAT = re.compile(r"resource limit|rlimit|timed? ?out|while verifying|not supported|unsupported", re.I)


def verus_env():
    env = dict(os.environ)
    return env


def run_verus(path, extra=None, timeout=1800):
    cmd = ["verus", "--triggers-mode", "silent", "--output-json", "--time", "--multiple-errors", "5", path]
    if extra:
        cmd += extra
    t0 = time.time()
    try:
        p = subprocess.run(cmd, cwd=os.path.dirname(path), env=verus_env(), stdout=subprocess.PIPE,
                           stderr=subprocess.PIPE, text=True, timeout=timeout)
        out, err, rc = p.stdout, p.stderr, p.returncode
    except subprocess.TimeoutExpired:
        out, err, rc = "", "verus timed out", -9
    wall = time.time() - t0
    data = None
    try:
        data = json.loads(out[out.index("{"):]) if "{" in out else None
    except Exception:
        data = None
    return {"cmd": " ".join(cmd), "json": data, "stderr": err, "rc": rc, "wall_s": wall}


def confirm_in_isolation(path, qualified):
    """True iff the function verifies when it is the only function verus is asked to verify.
    `qualified` is the name verus reports (`unit::Type::fn` or `unit::fn`); --verify-function wants it without the module."""
    name = "::".join(qualified.split("::")[1:]) or qualified
    r = run_verus(path, extra=["--verify-root", "--verify-function", name])
    d = r["json"]
    try:
        vr = d["verification-results"]
        # (the function-breakdown of a partial run lists unselected functions as successful: only the totals are meaningful)
        return (not vr.get("encountered-error")) and (not vr.get("encountered-vir-error")) and vr.get("errors", 1) == 0 and vr.get("verified", 0) >= 1
    except Exception:
        return False


def error_blocks(stderr):
    """split rustc-style diagnostics into blocks starting with `error`"""
    blocks = []
    cur = None
    for ln in stderr.splitlines():
        if re.match(r"^(error|warning|note)(\[|:)", ln):
            if cur is not None:
                blocks.append(cur)
            cur = [ln]
        elif cur is not None:
            cur.append(ln)
    if cur is not None:
        blocks.append(cur)
    return ["\n".join(b) for b in blocks if b[0].startswith("error")]


def fn_line_ranges(path):
    """map emitted function name -> (first_line, last_line) in the generated unit (by brace matching)"""
    src = open(path).read()
    mask = extract.code_mask(src)
    ranges = []
    for m in re.finditer(r"\bfn\s+(\w+)", src):
        if not mask[m.start()]:
            continue
        # find body `{` : first `{` at paren depth 0 after the signature that is not inside requires/ensures parens
        i = m.end()
        depth = 0
        while i < len(src):
            if mask[i]:
                ch = src[i]
                if ch in "([":
                    depth += 1
                elif ch in ")]":
                    depth -= 1
                elif ch == ";" and depth == 0:
                    i = -1
                    break
                elif ch == "{" and depth == 0:
                    break
            i += 1
        if i < 0 or i >= len(src):
            continue
        # the `{` may belong to a spec block expression `({ .. })` inside ensures: depth>0 there, so fine
        try:
            c = extract.match_brace(src, mask, i)
        except extract.ExtractError:
            continue
        l0 = src.count("\n", 0, m.start()) + 1
        l1 = src.count("\n", 0, c) + 1
        ranges.append((m.group(1), l0, l1))
    return ranges


def attribute(blocks, ranges, unit):
    """error block -> function name, using the first `--> unit.rs:LINE` inside a known function"""
    per_fn = {}
    for b in blocks:
        fn = None
        for m in re.finditer(r"--> (?:\S*/)?%s\.rs:(\d+):" % re.escape(unit), b):
            ln = int(m.group(1))
            cands = [(l1 - l0, name) for name, l0, l1 in ranges if l0 <= ln <= l1]
            if cands:
                fn = min(cands)[1]
                # prefer the innermost function containing the PRIMARY location (first arrow)
                break
        per_fn.setdefault(fn or "?", []).append(b)
    return per_fn


def canary_ok():
    """the deliberately false lemma must be rejected"""
    os.makedirs(OUT, exist_ok=True)
    src = os.path.join(VERIF, "verus", "canary.rs")
    dst = os.path.join(OUT, "canary.rs")
    open(dst, "w").write(open(src).read())
    r = run_verus(dst)
    d = r["json"]
    if not d:
        return False, "canary: verus produced no JSON: " + r["stderr"][-300:]
    vr = d.get("verification-results", {})
    if vr.get("errors", 0) >= 1 and vr.get("verified", 0) >= 1:
        return True, ""
    return False, "canary lemma was not rejected: %s" % vr


def run_unit(unit, twin=None):
    """Returns dict(obligations=[...], cmd, meta, notes)."""
    os.makedirs(OUT, exist_ok=True)
    tmpl = os.path.join(VERIF, "verus", "units", unit + ".rs.tmpl")
    dst = os.path.join(OUT, unit + ".rs")
    meta = {"items": []}
    res = {"obligations": [], "cmd": "", "meta": meta, "notes": [], "unit": unit}
    stub = set()
    r = None
    for attempt in range(8):
        meta = {"items": []}
        res["meta"] = meta
        try:
            text = extract.process(tmpl, REPO, meta, stub=tuple(stub))
        except extract.ExtractError as e:
            res["obligations"].append({"id": "verus:%s" % unit, "engine": "verus", "strength": "unbounded",
                                       "status": "undecided", "reason": "extraction: %s" % e})
            return res
        except Exception as e:  # malformed source etc. -> undecided, never an alarm
            res["obligations"].append({"id": "verus:%s" % unit, "engine": "verus", "strength": "unbounded",
                                       "status": "undecided", "reason": "extractor crashed: %r" % e})
            return res
        with open(dst, "w") as f:
            f.write(text)
        with open(dst + ".meta.json", "w") as f:
            json.dump(meta, f, indent=1)
        r = run_verus(dst)
        d = r["json"]
        vr = (d or {}).get("verification-results", {})
        front_end = (not d) or ("verification-results" not in d) or vr.get("encountered-vir-error") or \
            (vr.get("encountered-error") and vr.get("verified", 0) + vr.get("errors", 0) == 0)
        if not front_end:
            break
        # front-end rejection: if the first error lies inside the body of an extracted function, stub that function
        # (contract only, obligation undecided) and try again - the rest of the unit stays decidable
        blocks = error_blocks(r["stderr"])
        ranges = fn_line_ranges(dst)
        culprit = None
        for b in blocks:
            m = re.search(r"--> (?:\S*/)?%s\.rs:(\d+):" % re.escape(unit), b)
            if not m:
                continue
            ln = int(m.group(1))
            cands = [(l1 - l0, name, l0) for name, l0, l1 in ranges if l0 <= ln <= l1]
            if cands:
                _, name, l0 = min(cands)
                # map the emitted name back to an extracted item (same name and nearest following line)
                its = [it for it in meta["items"] if it["kind"] == "fn" and it["emitted_as"] == name and not it.get("stubbed")]
                if its:
                    # several extracted fns may share a name (len, get): pick by order of appearance in the file
                    same = [x for x in ranges if x[0] == name]
                    idx = [x[1] for x in same].index(l0) if l0 in [x[1] for x in same] else 0
                    all_named = [it for it in meta["items"] if it["kind"] == "fn" and it["emitted_as"] == name]
                    if idx < len(all_named) and not all_named[idx].get("stubbed"):
                        culprit = all_named[idx]["emitted_as"] + "@" + all_named[idx]["container"]
                    else:
                        culprit = its[0]["emitted_as"] + "@" + its[0]["container"]
                    break
        if culprit is None or culprit in stub:
            break
        stub.add(culprit)
        res["notes"].append("stubbed %s after a front-end rejection" % culprit)
    res["cmd"] = "python3 verus/extract.py verus/units/%s.rs.tmpl %s .cache/verus/%s.rs && %s" % (unit, REPO, unit, r["cmd"])
    res["wall_s"] = r["wall_s"]
    d = r["json"]
    extracted = {it["emitted_as"]: it for it in meta["items"] if it["kind"] == "fn"}

    def unannotated(fn_name):
        """closures without a contract inside the extracted function / the statement-range wrapper of that name"""
        n = 0
        for it in meta["items"]:
            if (it["kind"] == "fn" and it["emitted_as"] == fn_name) or (it["kind"] == "stmts" and it.get("wrapper") == fn_name):
                n = max(n, it.get("unannotated_closures", 0))
        return n
    if not d or "verification-results" not in d:
        res["obligations"].append({"id": "verus:%s" % unit, "engine": "verus", "strength": "unbounded",
                                   "status": "undecided", "reason": "verus gave no result: " + r["stderr"][-400:]})
        return res
    vr = d["verification-results"]
    blocks = error_blocks(r["stderr"])
    if vr.get("encountered-vir-error") or (vr.get("encountered-error") and vr.get("verified", 0) + vr.get("errors", 0) == 0):
        # front-end rejection (unsupported construct, type error after a source change): undecided
        res["obligations"].append({"id": "verus:%s" % unit, "engine": "verus", "strength": "unbounded",
                                   "status": "undecided",
                                   "reason": "verus front end rejected the unit: " + (blocks[0][:400] if blocks else r["stderr"][-400:])})
        return res
    ranges = fn_line_ranges(dst)
    per_fn_err = attribute(blocks, ranges, unit)
    seen = set()
    try:
        mods = d["times-ms"]["smt"]["smt-run-module-times"]
    except KeyError:
        mods = []
    for mod in mods:
        for fb in mod.get("function-breakdown", []):
            mode = fb.get("mode:", fb.get("mode", ""))
            if mode not in ("exec", "proof"):
                continue
            name = fb["function"].split("::")[-1]
            qual = "::".join(fb["function"].split("::")[1:])
            ob = {"id": "verus:%s::%s" % (unit, qual), "engine": "verus", "strength": "unbounded",
                  "time_s": fb.get("time-micros", 0) / 1e6, "rlimit": fb.get("rlimit"), "mode": mode,
                  "real_code": name in extracted}
            seen.add(name)
            it_ = extracted.get(name)
            if it_ is not None and any(x.get("stubbed") for x in meta["items"] if x["kind"] == "fn" and x["emitted_as"] == name):
                st = [x for x in meta["items"] if x["kind"] == "fn" and x["emitted_as"] == name and x.get("stubbed")]
                # (functions sharing a name are all marked when one of them is stubbed: conservative)
                ob["status"] = "undecided"
                ob["reason"] = "function body not under contract on this tree (%s); callers are checked against its contract" % st[0]["stubbed"][:200]
            elif fb.get("success"):
                ob["status"] = "verified"
            else:
                errs = per_fn_err.get(name, [])
                txt = "\n".join(errs)
                definite = [e for e in errs if FAILED_PAT.search(e) and not re.search(r"resource limit|rlimit", e, re.I)]
                if definite and confirm_in_isolation(dst, fb["function"]):
                    # A failure that does not reproduce when the function is verified on its own is a solver artefact of the batch
                    # run (Verus shares one Z3 session per module: after another function's failed query a brittle one may fail
                    # too). It is not reported: the obligation is discharged by the isolated run.
                    ob["status"] = "verified"
                    ob["note"] = "failed in the batch run, verified when run alone (--verify-function): batch artefact, not reported"
                elif definite and unannotated(name):
                    # The body contains a closure the unit gives no contract for (typically introduced by an edit: `.map(|x| ..)`):
                    # Verus knows nothing about what such a closure returns, so a failed proof cannot be told from a missing
                    # specification. Undecided, never an alarm (a behaviour-preserving refactor of find_link into
                    # `search_kmer(..).map(|idx| ..)` was reported as a violation before this rule).
                    ob["status"] = "undecided"
                    ob["reason"] = "proof failed, but the body contains %d closure(s) without a contract in this unit: cannot be told from a missing specification; %s" % (unannotated(name), (errs[0].splitlines()[0] if errs else "")[:160])
                elif definite:
                    ob["status"] = "failed"
                    ob["failed_checks"] = [{"msg": e.splitlines()[0] + " @ " + (re.search(r"--> (\S+)", e).group(1).split("/")[-1] if re.search(r"--> \S+", e) else ""),
                                            "kind": "failed"} for e in errs][:6]
                    ob["verifier_output"] = txt[:6000]
                elif confirm_in_isolation(dst, fb["function"]):
                    # resource limit hit (or an unattributed failure) in the batch run only: the isolated run discharges it
                    ob["status"] = "verified"
                    ob["note"] = "resource limit / unattributed failure in the batch run, verified when run alone (--verify-function)"
                else:
                    ob["status"] = "undecided"
                    ob["reason"] = ("rlimit/timeout: " if re.search(r"resource limit|rlimit", txt, re.I) else "unattributed failure: ") + (txt[:300] or r["stderr"][-300:])
            res["obligations"].append(ob)
    for x in meta["items"]:
        if x["kind"] == "fn" and x.get("stubbed") and x["emitted_as"] not in seen:
            seen.add(x["emitted_as"])
            cont = re.sub(r"^impl(<[^>]*>)?\s+", "", x["container"]).split(" for ")[-1].split("<")[0].strip() if x["container"] not in ("-", "") else ""
            qual = (cont + "::" if cont else "") + x["emitted_as"]
            res["obligations"].append({"id": "verus:%s::%s" % (unit, qual), "engine": "verus", "strength": "unbounded", "mode": "exec",
                                       "real_code": True, "status": "undecided",
                                       "reason": "function body not under contract on this tree (%s); callers are checked against its contract" % x["stubbed"][:200]})
    # every extracted function must have produced an obligation (vacuity guard)
    for name in extracted:
        if name not in seen:
            res["obligations"].append({"id": "verus:%s::%s" % (unit, name), "engine": "verus", "strength": "unbounded",
                                       "status": "undecided", "reason": "extracted function produced no obligation"})
    if vr.get("errors", 0) > 0 and not any(o["status"] != "verified" for o in res["obligations"]):
        res["obligations"].append({"id": "verus:%s" % unit, "engine": "verus", "strength": "unbounded",
                                   "status": "undecided", "reason": "verus reported errors that could not be attributed: "
                                   + (blocks[0][:300] if blocks else "")})
    return res


def twin_probe(unit, max_fns=40):
    """Vacuity probe (thorough tier): for every extracted function, a twin whose body starts with `assert(false)`
    must be REJECTED - otherwise its precondition is contradictory and its 'proof' is vacuous."""
    tmpl = os.path.join(VERIF, "verus", "units", unit + ".rs.tmpl")
    meta = {"items": []}
    try:
        extract.process(tmpl, REPO, meta)
    except Exception as e:
        return [{"id": "verus:%s:twin" % unit, "engine": "verus", "strength": "vacuity-probe", "status": "undecided",
                 "reason": "extraction failed: %s" % e}]
    fns = [it for it in meta["items"] if it["kind"] == "fn" or (it["kind"] == "stmts" and it.get("wrapper"))][:max_fns]

    def probe(args):
        k, it = args
        if it["kind"] == "stmts":
            # statement-range wrapper: the probe goes in front of the range, the function that must fail is the wrapper
            key = it["twin_key"]
            it = dict(it, emitted_as=it["wrapper"])
        else:
            key = it["emitted_as"] + "@" + it["container"]
        m2 = {"items": []}
        text = extract.process(tmpl, REPO, m2, twin=key)
        # a raised resource limit only makes the solver search longer for a proof of `false`: probes run at the default limit
        # (running out of resources is a rejection, too)
        text = re.sub(r"#\[verifier::rlimit\(\d+\)\]", "", text)
        dst = os.path.join(OUT, "%s__twin%d.rs" % (unit, k))
        with open(dst, "w") as f:
            f.write(text)
        r = run_verus(dst)
        try:
            os.remove(dst)
        except OSError:
            pass
        d = r["json"]
        rejected = False
        if d and "verification-results" in d:
            try:
                for mod in d["times-ms"]["smt"]["smt-run-module-times"]:
                    for fb in mod.get("function-breakdown", []):
                        if fb["function"].split("::")[-1] == it["emitted_as"] and not fb.get("success"):
                            rejected = True
            except KeyError:
                pass
        ob = {"id": "verus:%s::%s:twin" % (unit, it["emitted_as"]), "engine": "verus", "strength": "vacuity-probe"}
        if rejected:
            ob["status"] = "verified"
        else:
            ob.update(status="undecided", reason="vacuity: `assert(false)` at the start of %s was NOT rejected - its precondition may be contradictory" % it["emitted_as"])
        return ob

    # the probes are independent single-file verus runs: run them 8 at a time (extraction itself is serialised - FMT_LITERALS is global)
    import threading
    from concurrent.futures import ThreadPoolExecutor
    lock = threading.Lock()
    _process = extract.process

    def locked_process(*a, **kw):
        with lock:
            return _process(*a, **kw)
    extract.process = locked_process
    try:
        with ThreadPoolExecutor(max_workers=8) as ex:
            out = list(ex.map(probe, list(enumerate(fns))))
    finally:
        extract.process = _process
    return out


ASSUME_SCAN = re.compile(r"\b(assume\s*\(|admit\s*\(|external_body|assume_specification|external_fn_specification|"
                         r"external_type_specification|#\[verifier::external\]|axiom)")


def _unit_files(tmpl, seen=None):
    """the template and every file it includes, recursively"""
    seen = seen if seen is not None else []
    if tmpl in seen or not os.path.exists(tmpl):
        return seen
    seen.append(tmpl)
    for ln in open(tmpl):
        m = re.match(r"^\s*//@include\s+(\S+)", ln)
        if m:
            _unit_files(os.path.join(os.path.dirname(tmpl), m.group(1)), seen)
    return seen


def _bodyless_trait_fns(text):
    """(trait, fn) pairs for exec/proof methods declared in a `trait` block with a contract but no body: the unit ASSUMES them"""
    out = []
    for tm in re.finditer(r"^(?:pub\s+)?trait\s+(\w+)[^{]*\{", text, re.M):
        depth, i = 1, tm.end()
        while i < len(text) and depth:
            depth += {"{": 1, "}": -1}.get(text[i], 0)
            i += 1
        block = text[tm.end():i]
        for fm in re.finditer(r"^\s*(?:proof\s+)?fn\s+(\w+)", block, re.M):
            if re.search(r"\bspec\s+fn\s+%s\b" % fm.group(1), block[max(0, fm.start() - 12):fm.end()]):
                continue
            d, j = 0, fm.end()
            while j < len(block):
                c = block[j]
                if c in "([":
                    d += 1
                elif c in ")]":
                    d -= 1
                elif d == 0 and c == ";":
                    out.append((tm.group(1), fm.group(1)))
                    break
                elif d == 0 and c == "{":
                    break
                j += 1
    return out


def scan_assumptions(unit):
    tmpl = os.path.join(VERIF, "verus", "units", unit + ".rs.tmpl")
    out = []
    for fpath in _unit_files(tmpl):
        text = open(fpath).read()
        lines = text.split("\n")
        for k, ln in enumerate(lines):
            if ln.strip().startswith("//") and not ln.strip().startswith("//@"):
                continue
            m = ASSUME_SCAN.search(ln)
            if m:
                ctx = ln.strip()
                # name the item it applies to (next fn/struct line)
                nxt = ""
                for j in range(k, min(k + 6, len(lines))):
                    mm = re.search(r"\b(fn|struct|assume_specification)\b[^{;(]*", lines[j])
                    if mm:
                        nxt = lines[j].strip()[:110]
                        break
                out.append("verus/%s: %s  [%s]" % (os.path.relpath(fpath, os.path.join(VERIF, "verus")), m.group(1).strip(" ("), nxt or ctx[:110]))
        code = "\n".join(l for l in lines if not l.strip().startswith("//"))
        for tr, fn in _bodyless_trait_fns(code):
            out.append("verus/%s: trait-level contract without body (assumed in this unit; for Mer/Kmer/Vmer it is the seam Kani discharges per shipped type)  [trait %s :: fn %s]"
                       % (os.path.relpath(fpath, os.path.join(VERIF, "verus")), tr, fn))
    return out


def run_units(units, pid, tier):
    obligations, cmds, notes, assumptions, samples = [], [], [], [], []
    ok, why = canary_ok()
    if not ok:
        obligations.append({"id": "verus:canary", "engine": "verus", "strength": "canary", "status": "undecided",
                            "reason": why})
    extraction = []
    for u in units:
        flt = None
        if isinstance(u, (tuple, list)):
            u, flt = u
        r = run_unit(u)
        if flt:
            keep = []
            for o in r["obligations"]:
                name = "::".join(o["id"].split("::")[1:])  # qualified: Type::fn
                # unit-level (un-attributable) results and lemmas are always kept; functions by filter
                # (a stubbed statement-range wrapper is reported under the source function's container: match its bare name too)
                if o["id"].count("::") == 0 or re.search(flt, name) or o.get("mode") == "proof" \
                        or (o.get("status") == "undecided" and re.search(flt, name.split("::")[-1])):
                    keep.append(o)
            r["obligations"] = keep
        obligations += r["obligations"]
        if tier == "thorough" and not any(o["status"] == "undecided" and o["id"].count("::") == 0 for o in r["obligations"]):
            tw = twin_probe(u)
            if flt:
                tw = [o for o in tw if re.search(flt, o["id"].split("::", 1)[1].rsplit(":", 1)[0].split("::")[-1]) or True]
            obligations += tw
        if r["cmd"]:
            cmds.append(r["cmd"])
        notes += r["notes"]
        assumptions += scan_assumptions(u)
        for it in r["meta"]["items"]:
            if it["kind"] == "fn":
                extraction.append({"unit": u, "fn": "%s :: %s :: %s" % (it["file"], it["container"], it["name"]),
                                   "sha256": it["sha256"][:16], "rewrites": it["rewrites"], "span": it["span"]})
        samples += ["%s (real code: %s)" % (o["id"], o.get("real_code")) for o in r["obligations"] if o.get("real_code")][:4]
    return {"obligations": obligations, "cmds": cmds, "notes": notes, "assumptions": assumptions,
            "samples": samples, "extraction": extraction}
