// Native replay of a verifier counterexample against the real crate:
//   debruijn-replay <replay.json>
// The JSON carries {"harness": "kmers::kmer48::k_rc", "inputs": [[..bytes..], ...]} - one byte vector
// per value drawn by the contract function, in draw order (Kani concrete-playback format).
// Exit 0: the contract function ran clean (not reproduced); 1: obligation(s) violated on the real
// code (names printed); 2: inputs unusable.
use std::process::exit;

fn main() {
    let path = std::env::args().nth(1).expect("usage: debruijn-replay <file.json> | --validate-avx-models");
    if path == "--validate-avx-models" {
        let (run, bad) = debruijn::verif::validate_avx_models(1_000_000);
        println!("AVX-MODELS cases={} mismatches={}", run, bad);
        exit(if bad == 0 { 0 } else { 1 });
    }
    if path == "--enumerate" {
        // debruijn-replay --enumerate <spec.json>: spec = {"harness": "..", "domains": [{"bytes": 8, "values": [0, 1, 2]}, ..]} - one
        // domain per value the contract function draws, in draw order. Runs the contract function on the REAL crate for every
        // combination (a bounded, enumerated check); stops at the first combination that violates an obligation.
        let spec_path = std::env::args().nth(2).expect("usage: debruijn-replay --enumerate <spec.json>");
        let txt = std::fs::read_to_string(&spec_path).expect("cannot read spec file");
        let v: serde_json::Value = serde_json::from_str(&txt).expect("bad json");
        let harness = v["harness"].as_str().expect("harness").to_string();
        let h0 = harness.trim_start_matches("verif::").to_string();
        let h1 = h0.replacen("::verif::", "::", 1);
        let doms: Vec<(usize, Vec<u64>)> = v["domains"].as_array().expect("domains").iter()
            .map(|d| (d["bytes"].as_u64().unwrap() as usize, d["values"].as_array().unwrap().iter().map(|x| x.as_u64().unwrap()).collect()))
            .collect();
        let mut idx = vec![0usize; doms.len()];
        let mut cases: u64 = 0;
        std::panic::set_hook(Box::new(|_| {}));
        loop {
            let inputs: Vec<Vec<u8>> = doms.iter().zip(idx.iter())
                .map(|((nb, vals), &i)| vals[i].to_le_bytes()[..*nb].to_vec())
                .collect();
            cases += 1;
            let shown = serde_json::to_string(&inputs).unwrap();
            let hh = h1.clone();
            let r = std::panic::catch_unwind(move || debruijn::verif::replay(hh.as_str(), inputs));
            match r {
                Err(_) => { println!("ENUM reproduced harness={} inputs={} violated: the real code panicked", harness, shown); exit(1); }
                Ok(Err(e)) => { println!("ENUM unusable harness={} {}", harness, e); exit(2); }
                Ok(Ok(failed)) => {
                    if !failed.is_empty() {
                        println!("ENUM reproduced harness={} inputs={} violated: {}", harness, shown, failed.join(" | "));
                        exit(1);
                    }
                }
            }
            // next combination
            let mut k = 0;
            loop {
                if k == idx.len() { println!("ENUM clean harness={} cases={}", harness, cases); exit(0); }
                idx[k] += 1;
                if idx[k] < doms[k].1.len() { break; }
                idx[k] = 0;
                k += 1;
            }
        }
    }
    let txt = std::fs::read_to_string(&path).expect("cannot read replay file");
    let v: serde_json::Value = serde_json::from_str(&txt).expect("bad json");
    let harness = v["harness"].as_str().expect("harness").to_string();
    let inputs: Vec<Vec<u8>> = match v["inputs"].as_array() {
        Some(a) => a
            .iter()
            .map(|x| x.as_array().unwrap().iter().map(|b| b.as_u64().unwrap() as u8).collect())
            .collect(),
        None => {
            println!("REPLAY no-inputs harness={}", harness);
            exit(2);
        }
    };
    // "verif::kmers::kmer48::k_rc" -> "kmers::kmer48::k_rc"; "dna_string::verif::d_x" -> "dna_string::d_x"
    let h0 = harness.trim_start_matches("verif::").to_string();
    let h1 = h0.replacen("::verif::", "::", 1);
    let h = h1.as_str();
    let r = std::panic::catch_unwind(|| debruijn::verif::replay(h, inputs));
    match r {
        Err(_) => {
            println!("REPLAY reproduced harness={} the real code panicked on the recorded input", harness);
            exit(1);
        }
        Ok(Err(e)) => {
            println!("REPLAY unusable harness={} {}", harness, e);
            exit(2);
        }
        Ok(Ok(failed)) => {
            if failed.is_empty() {
                println!("REPLAY not-reproduced harness={}", harness);
                exit(0);
            }
            for f in &failed {
                println!("REPLAY reproduced harness={} violated: {}", harness, f);
            }
            exit(1);
        }
    }
}
