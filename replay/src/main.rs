// Native replay of a verifier counterexample against the real crate:
//   debruijn-replay <replay.json>
// The JSON carries {"harness": "kmers::kmer48::k_rc", "inputs": [[..bytes..], ...]} - one byte vector
// per value drawn by the contract function, in draw order (Kani concrete-playback format).
// Exit 0: the contract function ran clean (not reproduced); 1: obligation(s) violated on the real
// code (names printed); 2: inputs unusable.
use std::process::exit;

fn main() {
    let path = std::env::args().nth(1).expect("usage: debruijn-replay <file.json> | --validate-avx-models");
    if path == "--validate-avx-models" {
        let (run, bad) = debruijn::verif::validate_avx_models(1_000_000);
        println!("AVX-MODELS cases={} mismatches={}", run, bad);
        exit(if bad == 0 { 0 } else { 1 });
    }
    let txt = std::fs::read_to_string(&path).expect("cannot read replay file");
    let v: serde_json::Value = serde_json::from_str(&txt).expect("bad json");
    let harness = v["harness"].as_str().expect("harness").to_string();
    let inputs: Vec<Vec<u8>> = match v["inputs"].as_array() {
        Some(a) => a
            .iter()
            .map(|x| x.as_array().unwrap().iter().map(|b| b.as_u64().unwrap() as u8).collect())
            .collect(),
        None => {
            println!("REPLAY no-inputs harness={}", harness);
            exit(2);
        }
    };
    // "verif::kmers::kmer48::k_rc" -> "kmers::kmer48::k_rc"; "dna_string::verif::d_x" -> "dna_string::d_x"
    let h0 = harness.trim_start_matches("verif::").to_string();
    let h1 = h0.replacen("::verif::", "::", 1);
    let h = h1.as_str();
    let r = std::panic::catch_unwind(|| debruijn::verif::replay(h, inputs));
    match r {
        Err(_) => {
            println!("REPLAY reproduced harness={} the real code panicked on the recorded input", harness);
            exit(1);
        }
        Ok(Err(e)) => {
            println!("REPLAY unusable harness={} {}", harness, e);
            exit(2);
        }
        Ok(Ok(failed)) => {
            if failed.is_empty() {
                println!("REPLAY not-reproduced harness={}", harness);
                exit(0);
            }
            for f in &failed {
                println!("REPLAY reproduced harness={} violated: {}", harness, f);
            }
            exit(1);
        }
    }
}
