#!/bin/sh
# Run every registered check (tier from $1, default quick) and print one line per property.
cd "$(dirname "$0")"
TIER=${1:-quick}
for p in $(python3 -c "import json;print(' '.join(c['property_id'] for c in json.load(open('MANIFEST.json'))['checks']))"); do
  s=$(date +%s)
  ./check $p --tier $TIER > .cache/logs/run_all_$p.out 2>&1
  rc=$?
  e=$(date +%s)
  echo "$p rc=$rc $((e-s))s $(grep '^SUMMARY' .cache/logs/run_all_$p.out)"
  grep -E '^(VIOLATION|UNDECIDED|KNOWN-FINDING)' .cache/logs/run_all_$p.out | head -5
done
