#!/usr/bin/env python3
"""Write seeded/<id>/meta.json from the collected logs (what the seeded change breaks, what it needs, what was run,
what the checks reported)."""
import json, os, re, sys
VERIF = os.path.dirname(os.path.dirname(os.path.abspath(__file__)))
NEEDS = {
 "C02": "unstranded, even K, a palindromic k-mer with a sole extension chosen as path seed before its neighbour (seed order depends on the hash index)",
 "C03": "sharded pruning where the censored k-mer is the minimum or maximum of the shard's all_kmers list",
 "C05": "two or more bucket passes (memory budget), unstranded, a k-mer whose two orientations fall into different bucket ranges",
 "C07": "a score function returning values >= 2^32 (e.g. a hashed p-mer order)",
 "C10": "set_slice_mut with pos+n < K and a value carrying non-zero bits after the run",
 "C11": "a partial-width k-mer type and two k-mers differing only in the high bit of the first base (A/G or C/T)",
 "C12": "DnaString::rc on a length that is a multiple of 32 and >= 64",
 "C13": "K > 32 (Kmer40/48/64) extracted from a DnaString / slice at a position that is not a multiple of 32",
 "C14": "blank / Vmer::new / from_slice with n a multiple of 32 (incl. 0), then extend or ==/hash/ordering against an equal string built differently",
 "C15": "a reverse-complemented slice with start != 0 that is sliced again",
 "C16": "AVX2 path, input >= 32 bytes, one of 18 specific non-ACGT byte values inside a complete 32-byte block",
 "C17": "Lmer::set_slice_mut run crossing a word boundary with value bits set below the run",
 "C18": "at least one k-mer consumed, then nth(n) with n > 4 and remaining <= n < num_kmers",
 "C06": "stranded graph, a right extension to an absent k-mer whose reverse complement ends some node",
 "C08": "rc mode on, a non-identity permutation, the same k-mer seen in both orientations",
 "C09": "compress_graph(stranded = true), even K, a palindromic k-mer at a node boundary that a merge must cross",
 "C03b": "unstranded graph with an inverted repeat: one node side has two extension bases leading to the same node",
 "C13b": "iter_kmer_exts on a sequence shorter than K (incl. empty)",
 "C17b": "an Lmer created at exactly max_len",
 "C14b": "fill, clear(), then extend / compare the reused string",
 "C16b": "from_acgt_bytes_hashn on a read with at least two non-ACGT bytes",
 "C10b": "Kmer::from_ascii with more than K letters",
 "C15b": "a slice compared with its own rc() view (same string, start, length; different is_rc) over a region that is not reverse-palindromic",
 "C18b": "a caller that reads NodeKmer::node_id from `for node in &graph` (ids shifted by one, k-mers still right)",
 "C12b": "an even-K k-mer that is palindromic in every mirrored pair except the two central bases (and every Kmer2)",
 "C11b": "u128-backed partial-width types (Kmer48, Kmer40) with a non-A among the leading K-32 bases",
 "C02b": "a walk that returns to its own seed k-mer: unbranched cycle, homopolymer self-loop, odd-K hairpin",
 "C05b": "one canonical k-mer with at least 65536 observations (count wraps instead of saturating)",
 "C08b": "a read of exactly k bases",
 "C07b": "k == p (underflow in the first window)",
 "C03c": "a censored node that links to itself (circular / tandem-repeat node or hairpin): its self-extension survives fix_exts(Some(..))",
 "C06b": "stranded = true, even k, a path through a k-mer equal to its own reverse complement",
 "C09b": "compress_graph merging to the right over nodes whose payload differs from the seed's",
 "C13c": "a reverse-complemented slice with start != 0 (get_kmer / first_kmer / last_kmer / iter_kmers)",
 "C14c": "overwriting an old C or T with A or G through set_mut",
 "C16c": "lower-case c or g through from_dna_only_string",
 "C01a": "a node with k-mers to the left of its seed and payloads that are not all equal (the seed's payload is folded once per left step instead)",
 "C01b": "a reduction that treats its two arguments differently (invisible to + or max): right-walk steps swap path object and k-mer object",
 "C01c": "compress_kmers_no_exts (never called by the test suite): right extensions derived from the LEFT neighbours - panics with `unreachable` on forked input, splits linear contigs",
 "C09c": "a non-empty censor list and a surviving node among the last |censor| ids that no lower-numbered seed absorbs (BitSet::len counts set bits, the seed loop stops early)",
 "C09d": "unstranded, a left node walk ending on a node traversed reversed that has terminal extensions (rc() instead of complement() moves the bits to the wrong nibble)",
 "C09e": "a node walk that returns to its own seed (circle, already-compressed circular node, odd-k hairpin): the seed is taken out of the available set after the walk",
 "C03d": "max_path on a graph with a cycle through the best-scoring node (the last node of the right walk is never marked used)",
 "C20a": "a circular self-link (right end into own left end): the right-edge loop of node_to_gfa lists it a second time (target >= id)",
 "C20b": "a later node whose right extension leaves the graph (shard graph / boundary extensions): counted as 'has links' by num_exts_r although it writes none -> trailing comma",
 "C20c": "a left-side link (to an equal or higher id, a left hairpin, a circular self-link): the sign is derived from the strand flip, inverted for left edges",
 "C05c": "at least two bucket passes and a k-mer whose bucket equals a pass boundary: collected in two passes (`<=` instead of `<`)",
 "C19a": "finish_serial() and a node of more than K bases (the right index is built from first k-mers)",
 "C08c": "rc == true and a caller-supplied non-identity permutation (the rc operand of the score loses its permutation lookup)",
 "C03e": "remove_censored_exts with stranded == true (the target is always canonicalised)",
 "C02d": "stranded mode, even K, a self-reverse-complement k-mer inside an unbranched path that is not the seed (the walk stops in front of it)",
 "C06c": "stranded = true (the canonicalisation guard `if !self.stranded` is dropped in CompressFromHash::try_extend_kmer)",
 "C07c": "k == p: the post-tested minimum search also reads the p-mer at start + 1, outside the k-mer (out-of-bounds panic at the last window)",
 "C10c": "a partial-width VarIntKmer type and set_slice_mut of a run that ends before the last base (bottom mask half as wide as it should be)",
 "C17c": "Lmer<[u64;5]> or Lmer<[u64;6]> with length >= 128 (length byte masked with 0x7f)",
 "C05d": "CountFilterSet with a k-mer that has fewer distinct labels than min_kmer_obs but at least min_kmer_obs observations (the threshold is taken after dedup)",
 "C13d": "kmers_from_bytes / kmers_from_ascii on an input of exactly K bases (returns no k-mer)",
 "C14d": "extend on a string whose length is not a multiple of 32 with fewer bases than reach the next multiple, one of them non-A (the partial word is OR-ed in unshifted)",
 "C16d": "AVX2 available, input longer than 32 bytes and not a multiple of 32, a non-A base in the previous block at a lane beyond len % 32 (the tail word keeps stale lanes: == / hash / order differ from from_dna_string)",
 "C01d": "an unbranched component that closes on itself (pure cycle; odd-K hairpin at the seed): the seed stays available during its own walks and is used twice",
 "C12c": "DnaString::rc on an odd length (the middle base is never complemented)",
 "C19b": "unstranded graph, even K, a node longer than K whose terminal k-mer is a palindrome, looked up across the strand flip (graphs built through BaseGraph::add)",
 "C20d": "GFA export of a node of at least 256 bases (Debug of a slice prints start/len/is_rc instead of bases from 256 up)",
 "C02c": "a join predicate that is reflexive but not constant (colour equality): join_test(kmer_data, kmer_data) always accepts",
}
def detection(sid):
    out = []
    for fn in sorted(os.listdir(os.path.join(VERIF, ".cache", "logs"))):
        m = re.match(r"seeded_%s_(C\d+)\.out$" % re.escape(sid), fn)
        if not m: continue
        txt = open(os.path.join(VERIF, ".cache", "logs", fn)).read()
        lines = [l for l in txt.splitlines() if l.startswith(("VIOLATION", "FAILED-OBLIGATION", "UNDECIDED", "SUMMARY"))]
        rc = 1 if any(l.startswith("VIOLATION") for l in lines) else (2 if any(l.startswith("UNDECIDED") for l in lines) else 0)
        out.append({"check": m.group(1), "exit": rc, "outcome": {1: "caught (VIOLATION)", 2: "undecided (exit 2, no alarm)", 0: "missed"}[rc],
                    "lines": [l[:300] for l in lines[:8]]})
    return out
for sid in sorted(os.listdir(os.path.join(VERIF, "seeded"))):
    d = os.path.join(VERIF, "seeded", sid)
    if not os.path.isdir(d): continue
    prop = re.match(r"(C\d+)", sid).group(1)
    conf = open(os.path.join(d, "confirm.log")).read().strip().splitlines() if os.path.exists(os.path.join(d, "confirm.log")) else []
    meta = {
        "id": sid, "breaks_property": prop,
        "author": "independent sub-agent given only the property text and a scratch worktree (nothing from /verif)",
        "needs_to_manifest": NEEDS.get(sid, ""),
        "confirmed_by_me": {
            "how": "scratch worktree of /repo: `git apply patch.diff`; `cargo test --offline` (existing suite, demo moved away); `cargo test --offline --test demo` with the patch; `git apply -R`; demo again",
            "results": conf},
        "checks_run": "git -C /repo apply seeded/%s/patch.diff; ./check <id> --tier quick; git -C /repo checkout -- .  (selftest/run_seeded.sh)" % sid,
        "detection": detection(sid),
    }
    json.dump(meta, open(os.path.join(d, "meta.json"), "w"), indent=1)
    print(sid, [ (x["check"], x["outcome"]) for x in meta["detection"]])
