#!/bin/sh
# Apply a behaviour-preserving refactor to /repo, run the listed checks, undo it. A check must exit 0 or 2, never 1.
cd /verif
id=$1; shift
if ! git -C /repo diff --quiet; then echo "/repo not clean"; exit 2; fi
git -C /repo apply /verif/selftest/refactors/$id/patch.diff || { echo "patch does not apply"; exit 2; }
for c in "$@"; do
  VERIF_EVIDENCE_DIR=/verif/.cache/evidence_scratch ./check $c --tier quick > .cache/logs/refactor_${id}_$c.out 2>&1
  rc=$?
  v="ok"; [ $rc -eq 1 ] && v="FALSE-ALARM"; [ $rc -eq 2 ] && v="undecided"
  echo "refactor=$id check=$c rc=$rc $v $(grep '^SUMMARY' .cache/logs/refactor_${id}_$c.out | cut -c1-140)"
  grep -E '^(VIOLATION|FAILED-OBLIGATION|UNDECIDED)' .cache/logs/refactor_${id}_$c.out | cut -c1-240 | head -4
done
git -C /repo checkout -- .
