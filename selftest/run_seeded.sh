#!/bin/sh
# Apply each seeded change to /repo, run the listed checks, undo it. Usage: run_seeded.sh <id> <check> [<check>...]
cd /verif
id=$1; shift
if ! git -C /repo diff --quiet; then echo "/repo not clean"; exit 2; fi
git -C /repo apply /verif/seeded/$id/patch.diff || { echo "patch does not apply"; exit 2; }
for c in "$@"; do
  VERIF_EVIDENCE_DIR=/verif/.cache/evidence_scratch ./check $c --tier quick > .cache/logs/seeded_${id}_$c.out 2>&1
  echo "seeded=$id check=$c rc=$? $(grep '^SUMMARY' .cache/logs/seeded_${id}_$c.out)"
  grep -E '^(VIOLATION|FAILED-OBLIGATION|UNDECIDED)' .cache/logs/seeded_${id}_$c.out | cut -c1-220 | head -6
done
git -C /repo checkout -- .
