#!/bin/sh
# One-time warm-up after a fresh restore (offline): builds the Kani goto library for the crate's
# dependencies, the native replay binary and warms Verus. Checks work without it, only slower.
set -u
cd "$(dirname "$0")"
export CARGO_NET_OFFLINE=true
mkdir -p .cache evidence replays
( cd /repo && DEBRUIJN_VERIF_DIR=/verif CARGO_TARGET_DIR=/verif/.cache/kani \
    cargo kani -Z function-contracts -Z stubbing -Z unstable-options --exact --harness verif::tables::t_complement --output-format terse >/verif/.cache/setup-kani.log 2>&1 ) || echo "setup: kani warm-up failed (see .cache/setup-kani.log)"
( cd replay && RUSTFLAGS="--cfg debruijn_verif" DEBRUIJN_VERIF_DIR=/verif CARGO_TARGET_DIR=/verif/.cache/replay \
    cargo build --offline --quiet >/verif/.cache/setup-replay.log 2>&1 ) || echo "setup: replay build failed (see .cache/setup-replay.log)"
if [ -f verus/canary.rs ]; then
  verus verus/canary.rs >/verif/.cache/setup-verus.log 2>&1 || true
fi
echo "setup done"
exit 0
