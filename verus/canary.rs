// Vacuity canary for the Verus side: one true lemma (must verify) and one deliberately false lemma
// (must be REJECTED). If the false lemma is ever accepted the tool chain proves nothing.
use vstd::prelude::*;
verus! {
proof fn canary_true(x: int) ensures x + 0 == x {}
proof fn canary_false(x: int) ensures x + 1 == x {}
}
fn main() {}
