#!/usr/bin/env python3
"""Mechanical extraction of real functions from /repo/src/*.rs into a Verus unit.

A unit template (verus/units/<unit>.rs.tmpl) is ordinary Verus text (spec functions, trait contracts,
lemmas = the hand-written *specification*) plus directive blocks naming real functions:

    //@fn src/dna_string.rs | impl DnaString | push | ret r | as new_name
    //@ spec:
    //@     requires old(self).wf(),
    //@     ensures  final(self).wf(),
    //@ loop 0:
    //@     invariant ...,
    //@     decreases ...,
    //@ hint start: assert(...);
    //@ hint before "self.len += 1": proof { ... }
    //@ hint after "let mask": assert(..) by (bit_vector);
    //@ hint loop 0 start: ...      (first thing inside loop 0's body)
    //@ hint loop 0 end: ...        (last thing inside loop 0's body)
    //@ closure 0: ensures ...      (spliced between closure header `|..|` and its body)
    //@end

    //@struct src/dna_string.rs | DnaString

Each block is replaced by the function's signature and body copied VERBATIM from the current working
tree, with only the clause text spliced in at the named places and the rewrite rules below applied.
Nothing else of the code is touched; there is no rule that changes an operator, constant, index,
condition or statement order.

Rewrite rules (each application is counted per function and reported in the evidence):
  R1  statements `println!(..);` `debug!(..);` `trace!(..);` `info!(..);` removed          (logging)
  R2  `panic!(..)`, `unimplemented!(..)`, `unreachable!(..)` -> `vpanic()`  (requires false: panic
      freedom becomes an obligation); message arguments of `assert!(c, "..")` dropped; `debug_assert!`
      -> `assert!`; `assert_eq!(a, b)` -> `assert!(a == b)`
  R3  attributes (`#[inline..]`, `#[derive..]`, `#[serde..]`) and doc comments dropped (of a derive list
      only `Clone`/`Copy` are kept on extracted structs/enums)
  R4  `write!(f, "{}", e)` -> `fmt::sink(f, e)` (prelude: appends the rendering of `e`, a char or a
      String, to the formatter's ghost output); any other `write!`/`writeln!` -> `fmt::sink_other(f)`
      (unspecified output). Trusts core::fmt to render a char / String as itself.
  R8  the surrounding `impl Trait for T` header is not copied: the method is emitted where the
      template places it (an inherent impl); `as name` renames the fn identifier in its own header
  R9  `ret r`: the return type `-> T` becomes `-> (r: T)` so that clauses can name the result
  R16 a reference pattern that binds no variable - `&(_, Dir::Left)` - loses its `&` (`Some(&(_, Dir::Left))` ->
      `Some((_, Dir::Left))`): by default binding modes both match exactly the same values; Verus rejects `&` patterns
  R17 `for &(a, b) in EXPR {` -> `for r17_ in EXPR { let (a, b) = *r17_;`: the reference pattern of a `for` header
      becomes a first body statement copying the (Copy) tuple out of the reference - same bindings, same values
  R19 `//@fmtlit ID "LITERAL"` declares a format string; in a unit with such declarations `writeln!(w, LITERAL, a, b, ..)` / `write!(w, LITERAL, ..)` becomes
      `fmtlog::lineN(w, ID, a, b, ..)` (prelude-style seam: appends (ID, rendered arguments) to the sink's ghost line log); an
      undeclared literal in such a unit is an extraction error (undecided), so a changed format string cannot pass unnoticed
  R20 `for (i, PAT) in EXPR.enumerate() { BODY }` -> `let mut i: usize = 0; for PAT in EXPR { BODY i += 1; }`: the counter of
      `enumerate` becomes an explicit counter incremented at the end of the body (only for bodies without continue/break/return)
  R21 `//@ seam: "FROM" => "TO"` (inside a //@fn block): a declared substitution of an iterator expression or `impl Iterator`
      parameter by a seam object of the unit (e.g. `bytes.iter().cloned()` -> `&mut ByteSrc::cloned(bytes)`, whose assumed
      contract says which items the adapter chain yields). FROM must occur exactly once in header + body (`=>*N`: exactly N times, all
      replaced), else the function
      is stubbed (undecided); every pair is listed in the evidence. Nothing but the item source changes
  `//@fieldorder file | Struct | f1, f2 | derive A, B` emits `proof fn derive_shape_Struct() ensures true|false`: the truth value of "the
      struct declares exactly these fields in this order and derives these traits" as read from the source on this run
  R18 `| where K: Ord`: a supertrait bound of the real trait (`Kmer: ... + Ord`) that the Verus-side seam trait does not carry
      is restated on the extracted function as a where clause (no executable effect)
  R15 `//@stmts file | container | fn | from "a" | to "b"`: a contiguous statement range of a function body
      (from the statement containing anchor a through the statement containing anchor b) is emitted verbatim
      inside a wrapper function whose header, parameters and return expression are written in the template;
      the variables the range reads become the wrapper's parameters. Variant `| loop N body`: the range is the
      whole body of the function's N-th loop (textual order); the loop header is recorded, not emitted
  R14 `closure N params (a: T, b: T)`: type annotations are added to the un-annotated parameters of a closure
      (names must match the source exactly; the types are the ones rustc infers)
  R13 a `use crate::path::Name;` statement inside a function body is dropped (the unit is one module and
      its prelude declares the seam type of that name)
  R12 `loop N iter NAME`: a `for PAT in EXPR` header becomes `for PAT in NAME: EXPR` (Verus syntax naming
      the ghost iterator so an invariant can mention the iteration count; no executable effect)
  R11 the visibility qualifier (`pub`, `pub(crate)`) of an extracted fn / struct header is dropped: the
      unit is a single module, so visibility has no semantic effect (Verus otherwise refuses contracts
      over private fields on public functions)

Lost anchor / missing function / ambiguous match -> ExtractError (the check exits 2: undecided). Undecidedness is function-local
where possible: a //@fn block whose hints lose their anchors, and a wrapper function whose //@stmts range cannot be located,
are emitted as contract-only stubs (`#[verifier::external_body]`, body `unimplemented!()`): that function's own obligation is
reported undecided, everything else in the unit is still verified against its contract.
"""
import hashlib
import os
import re
import sys


class ExtractError(Exception):
    pass


# ------------------------------------------------------------------------------------ tokenizer
def scan(src):
    """Yield (kind, start, end) for regions: 'code', 'comment', 'string', 'char'.
    Good enough for rustfmt-formatted sources: handles // and nested /* */, "..", r#".."#, b"..", 'c',
    and distinguishes lifetimes from char literals."""
    i, n = 0, len(src)
    out = []
    code_start = 0

    def flush(j):
        nonlocal code_start
        if j > code_start:
            out.append(("code", code_start, j))

    while i < n:
        c = src[i]
        if c == "/" and i + 1 < n and src[i + 1] == "/":
            flush(i)
            j = src.find("\n", i)
            j = n if j < 0 else j
            out.append(("comment", i, j))
            i = j
            code_start = i
        elif c == "/" and i + 1 < n and src[i + 1] == "*":
            flush(i)
            depth, j = 1, i + 2
            while j < n and depth:
                if src.startswith("/*", j):
                    depth += 1
                    j += 2
                elif src.startswith("*/", j):
                    depth -= 1
                    j += 2
                else:
                    j += 1
            out.append(("comment", i, j))
            i = j
            code_start = i
        elif c == '"' or (c in "br" and re.match(r'(?:b?r#*"|b")', src[i:i + 8]) and
                          (i == 0 or not (src[i - 1].isalnum() or src[i - 1] == "_"))):
            flush(i)
            m = re.match(r'b?r(#*)"', src[i:i + 12])
            if m:
                hashes = m.group(1)
                j = src.find('"' + hashes, i + len(m.group(0)))
                j = n if j < 0 else j + 1 + len(hashes)
            else:
                j = i + (2 if c == "b" else 1)
                while j < n and src[j] != '"':
                    j += 2 if src[j] == "\\" else 1
                j += 1
            out.append(("string", i, j))
            i = j
            code_start = i
        elif c == "'":
            # char literal or lifetime
            m = re.match(r"'(?:\\(?:x[0-9a-fA-F]{2}|u\{[0-9a-fA-F]+\}|.)|[^'\\])'", src[i:i + 12])
            if m:
                flush(i)
                j = i + len(m.group(0))
                out.append(("char", i, j))
                i = j
                code_start = i
            else:
                i += 1
        else:
            i += 1
    flush(n)
    return out


def code_mask(src):
    """bytearray: 1 where the character is code (not comment/string/char)."""
    mask = bytearray(len(src))
    for kind, a, b in scan(src):
        if kind == "code":
            for k in range(a, b):
                mask[k] = 1
    return mask


def match_brace(src, mask, open_idx, open_ch="{", close_ch="}"):
    depth = 0
    i = open_idx
    n = len(src)
    while i < n:
        if mask[i]:
            if src[i] == open_ch:
                depth += 1
            elif src[i] == close_ch:
                depth -= 1
                if depth == 0:
                    return i
        i += 1
    raise ExtractError("unbalanced %s at %d" % (open_ch, open_idx))


def norm(s):
    return re.sub(r"\s+", " ", s).strip()


def find_items(src, mask, lo, hi):
    """Top-level `{`-blocks between lo and hi: yield (header_start, open_idx, close_idx)."""
    i = lo
    last = lo
    while i < hi:
        if mask[i]:
            if src[i] == "{":
                c = match_brace(src, mask, i)
                yield (last, i, c)
                i = c + 1
                last = i
                continue
            if src[i] == ";":
                last = i + 1
        i += 1


def strip_noncode(src, mask, a, b):
    return "".join(src[k] if mask[k] else " " for k in range(a, b))


class Source:
    def __init__(self, path):
        self.path = path
        self.src = open(path).read()
        self.mask = code_mask(self.src)

    def find_container(self, header_pat, all_hits=False):
        """header_pat: normalized text the item header must START with (after attrs/docs), e.g.
        'impl Mer for DnaString', \"impl<'a> Vmer for DnaStringSlice<'a>\", 'pub trait Kmer'."""
        want = norm(header_pat)
        hits = []
        for hs, o, c in find_items(self.src, self.mask, 0, len(self.src)):
            hdr = norm(strip_attrs(strip_noncode(self.src, self.mask, hs, o)))
            if hdr == want or hdr.startswith(want + " ") or hdr.startswith(want + ":") or hdr.startswith(want + "<"):
                # exact container wanted: reject 'impl Foo' matching 'impl Foo for Bar' unless equal
                if hdr == want or not want.startswith("impl") or hdr.startswith(want + " where"):
                    hits.append((hs, o, c))
                elif want.startswith("impl") and hdr.startswith(want) and " for " not in hdr[len(want):]:
                    hits.append((hs, o, c))
        if all_hits:
            return hits
        if len(hits) != 1:
            raise ExtractError("%s: container %r matched %d items" % (self.path, header_pat, len(hits)))
        return hits[0]

    def find_fn(self, container, name):
        # several impl blocks may carry the same header (`impl<K: Kmer, D> BaseGraph<K, D>` twice in graph.rs): the
        # function is looked up in all of them and must be found exactly once
        if container in ("-", ""):
            ranges = [(0, len(self.src))]
        else:
            conts = self.find_container(container, all_hits=True)
            if not conts:
                raise ExtractError("%s: container %r matched 0 items" % (self.path, container))
            ranges = [(o + 1, c) for _, o, c in conts]
        hits = []
        for lo, hi in ranges:
          for hs, o, c in find_items(self.src, self.mask, lo, hi):
            hdr = strip_noncode(self.src, self.mask, hs, o)
            m = re.search(r"\bfn\s+%s\b" % re.escape(name), strip_attrs(hdr))
            if m and re.match(r"^\s*(?:pub(?:\([^)]*\))?\s+)?(?:const\s+)?(?:unsafe\s+)?fn\s+%s\b" % re.escape(name),
                              strip_attrs(hdr)):
                hits.append((hs, o, c))
        if len(hits) != 1:
            raise ExtractError("%s: fn %s in %r matched %d items" % (self.path, name, container, len(hits)))
        return hits[0]

    def find_struct(self, name):
        hits = []
        for hs, o, c in find_items(self.src, self.mask, 0, len(self.src)):
            hdr = norm(strip_attrs(strip_noncode(self.src, self.mask, hs, o)))
            if re.match(r"^(pub(\([^)]*\))? )?(struct|enum) %s\b" % re.escape(name), hdr):
                hits.append((hs, o, c))
        if len(hits) != 1:
            raise ExtractError("%s: struct/enum %s matched %d items" % (self.path, name, len(hits)))
        return hits[0]


def strip_attrs(hdr):
    """remove #[...] attributes from a header (comments are already blanked)"""
    out = hdr
    while True:
        m = re.search(r"#\s*!?\[", out)
        if not m:
            return out
        depth = 0
        j = m.end() - 1
        while j < len(out):
            if out[j] == "[":
                depth += 1
            elif out[j] == "]":
                depth -= 1
                if depth == 0:
                    break
            j += 1
        out = out[:m.start()] + " " + out[j + 1:]


# ------------------------------------------------------------------------------------ rewrites
LOG_MACROS = ("println", "debug", "trace", "info", "eprintln", "warn")
PANIC_MACROS = ("panic", "unimplemented", "unreachable", "todo")


def find_macro_calls(text, mask, names):
    """yield (start, open_paren, close_paren, name) of `name!(...)` in code regions"""
    for m in re.finditer(r"\b(%s)\s*!\s*\(" % "|".join(names), text):
        if not mask[m.start()]:
            continue
        o = m.end() - 1
        c = match_brace(text, mask, o, "(", ")")
        yield (m.start(), o, c, m.group(1))


def split_top_args(text, mask, a, b):
    """split text[a:b] on top-level commas"""
    parts, depth, last = [], 0, a
    for i in range(a, b):
        if not mask[i]:
            continue
        ch = text[i]
        if ch in "([{":
            depth += 1
        elif ch in ")]}":
            depth -= 1
        elif ch == "," and depth == 0:
            parts.append((last, i))
            last = i + 1
    parts.append((last, b))
    return parts


FMT_LITERALS = {}  # rule R19: format-string literal -> id, declared by `//@fmtlit ID "LITERAL"` lines of the unit template


def apply_rewrites(body, counts):
    """body: text of `{ ... }`. Returns rewritten text. Edits are applied right-to-left."""
    mask = code_mask(body)
    edits = []  # (start, end, replacement)
    for s, o, c, name in find_macro_calls(body, mask, LOG_MACROS):
        e = c + 1
        k = e
        while k < len(body) and body[k] in " \t":
            k += 1
        if k < len(body) and body[k] == ";":
            e = k + 1
        edits.append((s, e, ""))
        counts["R1"] = counts.get("R1", 0) + 1
    for s, o, c, name in find_macro_calls(body, mask, PANIC_MACROS):
        edits.append((s, c + 1, "vpanic()"))
        counts["R2"] = counts.get("R2", 0) + 1
    for s, o, c, name in find_macro_calls(body, mask, ("assert", "debug_assert")):
        parts = split_top_args(body, mask, o + 1, c)
        cond = body[parts[0][0]:parts[0][1]].strip()
        new = "assert!(%s)" % cond
        if new != body[s:c + 1]:
            edits.append((s, c + 1, new))
            counts["R2"] = counts.get("R2", 0) + 1
    for s, o, c, name in find_macro_calls(body, mask, ("assert_eq", "debug_assert_eq")):
        parts = split_top_args(body, mask, o + 1, c)
        a = body[parts[0][0]:parts[0][1]].strip()
        b = body[parts[1][0]:parts[1][1]].strip()
        edits.append((s, c + 1, "assert!(%s == %s)" % (a, b)))
        counts["R2"] = counts.get("R2", 0) + 1
    # R4 `write!(f, "{}", e)` -> `fmt::sink(f, e)` ; any other format string -> `fmt::sink_other(f)`
    for s_, o, c, name in find_macro_calls(body, mask, ("write", "writeln")):
        parts = split_top_args(body, mask, o + 1, c)
        args = [body[a:b].strip() for a, b in parts]
        if len(args) == 3 and args[1] == '"{}"' and name == "write":
            edits.append((s_, c + 1, "fmt::sink(%s, %s)" % (args[0], args[2])))
        elif FMT_LITERALS and (args[1] if len(args) >= 2 else '""') in FMT_LITERALS:
            # R19: `writeln!(w, LIT, a, b, ..)` with a DECLARED literal -> `fmtlog::lineN(w, id, a, b, ..)`: the line is recorded in
            # the sink's ghost log as (id of the format string, rendered arguments); a bare `writeln!(w)` is the literal ""
            lit = args[1] if len(args) >= 2 else '""'
            edits.append((s_, c + 1, "fmtlog::line%d(%s)" % (max(len(args) - 2, 0), ", ".join([args[0], str(FMT_LITERALS[lit])] + args[2:]))))
            counts["R19"] = counts.get("R19", 0) + 1
            continue
        elif FMT_LITERALS:
            raise ExtractError("R19: format string %s is not one of the unit's declared literals" % (args[1] if len(args) > 1 else "?"))
        else:
            edits.append((s_, c + 1, "fmt::sink_other(%s)" % args[0]))
        counts["R4"] = counts.get("R4", 0) + 1
    # R16 a reference pattern that binds nothing - `&(_, Dir::Left)` - loses its `&`: by Rust's default binding modes
    # `Some(&(_, Dir::Left))` and `Some((_, Dir::Left))` match exactly the same `Option<&(T, Dir)>` values (Verus rejects `&` patterns)
    for m in re.finditer(r"&(\((?:\s*(?:_|[A-Z]\w*(?:::\w+)+)\s*,?)+\))", body):
        if mask[m.start()]:
            edits.append((m.start(), m.end(), m.group(1)))
            counts["R16"] = counts.get("R16", 0) + 1
    # R17 `for &(a, b) in EXPR {` -> `for r17_ in EXPR { let (a, b) = *r17_;` - the reference pattern of a for header is
    # moved into a first statement that copies the (Copy) tuple out of the reference: same bindings, same values
    for m in re.finditer(r"\bfor\s+&(\(\s*\w+(?:\s*,\s*\w+)*\s*\))\s+in\b", body):
        if not mask[m.start()]:
            continue
        i = m.end()
        depth = 0
        while i < len(body):
            if mask[i]:
                ch = body[i]
                if ch in "([":
                    depth += 1
                elif ch in ")]":
                    depth -= 1
                elif ch == "{" and depth == 0:
                    break
            i += 1
        if i >= len(body):
            raise ExtractError("R17: for header without body")
        edits.append((m.start(), m.end(), "for r17_ in"))
        edits.append((i + 1, i + 1, " let %s = *r17_; /*R17*/" % m.group(1)))
        counts["R17"] = counts.get("R17", 0) + 1
    # R20 `for (i, PAT) in EXPR.enumerate() {` -> `let mut i: usize = 0; for PAT in EXPR { BODY i += 1; }` - the counter of `enumerate`
    # becomes an explicit counter incremented at the end of the body (Verus has no specification for Enumerate). Only for bodies
    # without `continue` / `break` / `return`, where "end of the body" is the only way to the next iteration.
    for m in re.finditer(r"\bfor\s+\(\s*(\w+)\s*,\s*(\w+|&\([^()]*\))\s*\)\s+in\b", body):
        if not mask[m.start()]:
            continue
        i = m.end()
        depth = 0
        while i < len(body):
            if mask[i]:
                ch = body[i]
                if ch in "([":
                    depth += 1
                elif ch in ")]":
                    depth -= 1
                elif ch == "{" and depth == 0:
                    break
            i += 1
        hdr = body[m.end():i]
        me = re.search(r"\.enumerate\(\)\s*$", hdr)
        if not me:
            continue
        close = match_brace(body, mask, i)
        inner = body[i + 1:close]
        if re.search(r"\b(continue|break|return)\b", "".join(ch if mask[i + 1 + k] else " " for k, ch in enumerate(inner))):
            raise ExtractError("R20: enumerate loop body contains continue/break/return")
        cnt, pat = m.group(1), m.group(2)
        if pat.startswith("&"):
            # the item pattern is itself a reference pattern: rule R17 applied on top (copy the tuple out of the reference)
            edits.append((m.start(), m.end(), "let mut %s: usize = 0; /*R20*/ for r17_ in" % cnt))
            edits.append((i + 1, i + 1, " let %s = *r17_; /*R17*/" % pat[1:]))
            counts["R17"] = counts.get("R17", 0) + 1
        else:
            edits.append((m.start(), m.end(), "let mut %s: usize = 0; /*R20*/ for %s in" % (cnt, pat)))
        edits.append((m.end() + me.start(), m.end() + me.end(), " "))
        # a body whose last expression has no `;` (a unit-valued tail expression such as `k0.set_mut(i, *b)`) gets one
        code_inner = "".join(ch if mask[i + 1 + k] else " " for k, ch in enumerate(inner)).rstrip()
        sep = "" if (not code_inner or code_inner[-1] in ";}") else ";"
        edits.append((close, close, "%s %s += 1; /*R20*/ " % (sep, cnt)))
        counts["R20"] = counts.get("R20", 0) + 1
    # R13 `use crate::...;` inside a body: dropped (the unit's prelude provides the name)
    for m in re.finditer(r"\buse\s+crate::[\w:]+\s*;", body):
        if mask[m.start()]:
            edits.append((m.start(), m.end(), ""))
            counts["R13"] = counts.get("R13", 0) + 1
    # R3 doc comments / attributes inside bodies (rare): drop `#[inline...]`, keep everything else
    for m in re.finditer(r"#\[(inline|allow|cfg_attr)[^\]]*\]\s*", body):
        if mask[m.start()]:
            edits.append((m.start(), m.end(), ""))
            counts["R3"] = counts.get("R3", 0) + 1
    edits.sort()
    for k in range(1, len(edits)):
        if edits[k][0] < edits[k - 1][1]:
            raise ExtractError("overlapping rewrites")
    for s, e, r in reversed(edits):
        body = body[:s] + r + body[e:]
    return body


# ------------------------------------------------------------------------------------ splicing
def loop_headers(body, mask):
    """[(kw_start, open_brace_idx, close_brace_idx)] of while/for/loop in textual order.
    `for` inside `impl .. for` cannot occur in a body; `for<'a>` HRTB is excluded."""
    out = []
    for m in re.finditer(r"\b(while|for|loop)\b", body):
        if not mask[m.start()]:
            continue
        if m.group(1) == "for" and re.match(r"for\s*<", body[m.start():]):
            continue
        # header ends at first `{` at paren depth 0
        i = m.end()
        depth = 0
        while i < len(body):
            if mask[i]:
                ch = body[i]
                if ch in "([":
                    depth += 1
                elif ch in ")]":
                    depth -= 1
                elif ch == "{" and depth == 0:
                    break
            i += 1
        if i >= len(body):
            raise ExtractError("loop header without body")
        out.append((m.start(), i, match_brace(body, mask, i)))
    return out


def closure_headers(body, mask):
    """[(bar_start, header_end)] for closures `|args|` / `move |args|` in textual order (heuristic:
    a `|` that follows `(`, `,`, `=`, `move` or starts an expression)."""
    out = []
    i = 0
    n = len(body)
    while i < n:
        if mask[i] and body[i] == "|" and not (i + 1 < n and body[i + 1] in "|=") and not (i > 0 and body[i - 1] == "|"):
            j = i - 1
            while j >= 0 and body[j] in " \t\n":
                j -= 1
            prev = body[j] if j >= 0 else "{"
            prevword = re.search(r"(\w+)\s*$", body[:i])
            if prev in "(,={;" or (prevword and prevword.group(1) in ("move", "return")):
                k = i + 1
                while k < n and not (mask[k] and body[k] == "|"):
                    k += 1
                out.append((i, k + 1))
                i = k + 1
                continue
        i += 1
    return out


def stmt_bounds(body, mask, pos):
    """start/end of the statement containing index pos (same brace depth)."""
    # backwards to previous ; { } at depth 0 relative
    depth = 0
    i = pos
    while i > 0:
        i -= 1
        if not mask[i]:
            continue
        ch = body[i]
        if ch == "}" and depth == 0:
            # a block statement (if/while/for/match without `;`) ending right before ours?
            k = i + 1
            while k < len(body) and body[k] in " \t\n":
                k += 1
            nxt = body[k:k + 4]
            if not nxt.startswith("else") and (nxt[:1].isalnum() or nxt[:1] in "_(*&!"):
                break
            depth += 1
        elif ch in ")]}":
            depth += 1
        elif ch in "([{":
            if depth == 0:
                break
            depth -= 1
        elif ch == ";" and depth == 0:
            break
    start = i + 1
    depth = 0
    j = pos
    n = len(body)
    while j < n:
        if mask[j]:
            ch = body[j]
            if ch in "([{":
                depth += 1
            elif ch in ")]}":
                if depth == 0:
                    break
                depth -= 1
                if depth == 0 and ch == "}":
                    # block-like statement ends here unless followed by else / ; / . / ?
                    k = j + 1
                    while k < n and body[k] in " \t\n":
                        k += 1
                    rest = body[k:k + 5]
                    if not (rest.startswith("else") or rest[:1] in (";", ".", "?", ")", ",")):
                        j += 1
                        break
            elif ch == ";" and depth == 0:
                j += 1
                break
        j += 1
    return start, j


def splice(body, sections, fname):
    """body: `{...}` text (already rewritten). sections: list of (kind, arg, text)."""
    mask = code_mask(body)
    inserts = []  # (pos, text)
    replaces = []  # (start, end, text) - header-only replacements (R14)
    loops = None
    closures = None
    for kind, arg, text in sections:
        if kind == "loop":
            loops = loops or loop_headers(body, mask)
            itname = None
            if "|" in arg:
                arg, itname = arg.split("|")
            k = int(arg)
            if k >= len(loops):
                raise ExtractError("%s: loop %d not found (function has %d loops)" % (fname, k, len(loops)))
            inserts.append((loops[k][1], "\n" + text + "\n"))
            if itname:
                # R12: name the ghost iterator of a `for PAT in EXPR` header: `for PAT in NAME: EXPR`
                hdr = body[loops[k][0]:loops[k][1]]
                mm = re.match(r"for\s+.*?\s+in\s+", hdr, re.S)
                if not mm:
                    raise ExtractError("%s: loop %d is not a for loop" % (fname, k))
                inserts.append((loops[k][0] + mm.end(), itname + ": "))
        elif kind == "closure":
            closures = closures or closure_headers(body, mask)
            params = None
            if "|" in arg:
                arg, params = arg.split("|", 1)
            k = int(arg)
            if k >= len(closures):
                raise ExtractError("%s: closure %d not found (function has %d)" % (fname, k, len(closures)))
            # a contract needs a braced body: wrap a brace-less closure body expression in { } (R14)
            j = closures[k][1]
            while j < len(body) and body[j] in " \t\n":
                j += 1
            if body[j] != "{":
                depth = 0
                e = j
                while e < len(body):
                    if mask[e]:
                        ch = body[e]
                        if ch in "([{":
                            depth += 1
                        elif ch in ")]}":
                            if depth == 0:
                                break
                            depth -= 1
                        elif ch in ",;" and depth == 0:
                            break
                    e += 1
                inserts.append((closures[k][1], " " + text + " {"))
                inserts.append((e, "}"))
            else:
                inserts.append((closures[k][1], " " + text + " "))
            if params is not None:
                # R14: type annotations for un-annotated closure parameters: `|a, b|` -> `|a: T, b: T|`.
                # The names must be exactly the ones in the source, in order.
                hdr = body[closures[k][0]:closures[k][1]]
                src_names = [x.split(":")[0].strip() for x in hdr.strip("|").split(",")]
                new_names = [x.split(":")[0].strip() for x in split_top_commas(params)]
                if src_names != new_names:
                    raise ExtractError("%s: closure %d parameters are %r, contract expects %r" % (fname, k, src_names, new_names))
                replaces.append((closures[k][0], closures[k][1], "|" + params + "|"))
        elif kind == "hint":
            m = re.match(r'^(start|end)$', arg)
            if m:
                if arg == "start":
                    inserts.append((body.index("{") + 1, "\n" + text + "\n"))
                else:
                    inserts.append((len(body.rstrip()) - 1, "\n" + text + "\n"))
                continue
            m = re.match(r'^loop (\d+) (start|end)$', arg)
            if m:
                loops = loops or loop_headers(body, mask)
                k = int(m.group(1))
                if k >= len(loops):
                    raise ExtractError("%s: loop %d not found" % (fname, k))
                if m.group(2) == "start":
                    pos = loops[k][1] + 1
                    mm = re.match(r" let \([^)]*\) = \*r17_; /\*R17\*/", body[pos:])
                    if mm:
                        pos += mm.end()  # after the destructuring statement rule R17 put first
                    inserts.append((pos, "\n" + text + "\n"))
                else:
                    inserts.append((loops[k][2], "\n" + text + "\n"))
                continue
            m = re.match(r'^after loop (\d+)$', arg)
            if m:
                loops = loops or loop_headers(body, mask)
                k = int(m.group(1))
                if k >= len(loops):
                    raise ExtractError("%s: loop %d not found" % (fname, k))
                inserts.append((loops[k][2] + 1, "\n" + text + "\n"))
                continue
            m = re.match(r'^(before|after) "(.*)"(?: #(\d+))?$', arg)
            if m:
                needle = m.group(2)
                occ = int(m.group(3) or 0)
                idxs = [x.start() for x in re.finditer(re.escape(needle), body) if mask[x.start()]]
                if len(idxs) <= occ or (m.group(3) is None and len(idxs) != 1):
                    raise ExtractError("%s: hint anchor %r matched %d times" % (fname, needle, len(idxs)))
                s, e = stmt_bounds(body, mask, idxs[occ])
                if m.group(1) == "before":
                    inserts.append((s, "\n" + text + "\n"))
                else:
                    inserts.append((e, "\n" + text + "\n"))
                continue
            raise ExtractError("%s: bad hint position %r" % (fname, arg))
        else:
            raise ExtractError("bad section " + kind)
    events = [(pos, 0, pos, text) for pos, text in inserts] + [(e, -1, s_, text) for s_, e, text in replaces]
    events.sort(key=lambda t: (t[0], t[1]))
    out = []
    last = 0
    for pos, kind, start, text in events:
        if kind == -1:
            out.append(body[last:start])
            out.append(text)
            last = pos
        else:
            out.append(body[last:pos])
            out.append(text)
            last = pos
    out.append(body[last:])
    return "".join(out)


def name_return(sig, rname):
    """`-> T` -> `-> (r: T)` at depth 0 of the signature"""
    mask = code_mask(sig)
    depth = 0
    i = 0
    arrow = -1
    while i < len(sig) - 1:
        if mask[i]:
            if sig[i] in "([<":
                depth += 1
            elif sig[i] in ")]":
                depth -= 1
            elif sig[i] == ">" and sig[i - 1] != "-":
                depth -= 1
            elif sig[i] == "-" and sig[i + 1] == ">" and depth == 0:
                arrow = i
        i += 1
    if arrow < 0:
        raise ExtractError("ret: signature has no return type: " + sig)
    rest = sig[arrow + 2:]
    m = re.search(r"\bwhere\b", rest)
    ty = rest[:m.start()] if m else rest
    tail = rest[m.start():] if m else ""
    return sig[:arrow] + "-> (%s: %s) " % (rname, ty.strip()) + tail


# ------------------------------------------------------------------------------------ templates
def split_top_commas(text):
    """split at commas that are not nested in (), [], <> or {}"""
    out, depth, cur = [], 0, ""
    for ch in text:
        if ch in "([{<":
            depth += 1
        elif ch in ")]}>":
            depth -= 1
        if ch == "," and depth == 0:
            out.append(cur)
            cur = ""
        else:
            cur += ch
    if cur.strip():
        out.append(cur)
    return out


def parse_block(lines):
    """lines: the `//@ ...` lines between //@fn and //@end (without the `//@` prefix)."""
    sections = []
    spec = []
    cur = None
    for ln in lines:
        m = re.match(r"^\s*(spec|seam|loop \d+(?: iter \w+)?|closure \d+(?: params \(.*?\)(?=:(?:\s|$)))?|hint [^:]*?):\s?(.*)$", ln)
        starts_new = False
        if m:
            head = m.group(1)
            # a `hint before "a: b"` anchor may contain ':' - handle quoted anchors
            mq = re.match(r'^\s*(hint (?:before|after) "(?:[^"\\]|\\.)*"(?: #\d+)?):\s?(.*)$', ln)
            if mq:
                head, rest = mq.group(1), mq.group(2)
            else:
                rest = m.group(2)
            starts_new = True
        if starts_new:
            if head == "spec":
                cur = ("spec", None, [rest])
            elif head == "seam":
                cur = ("seam", None, [rest])
            elif head.startswith("loop"):
                hp = head.split()
                cur = ("loop", hp[1] + ("|" + hp[3] if len(hp) > 3 else ""), [rest])
            elif head.startswith("closure"):
                pm = re.search(r"params \((.*)\)$", head)
                cur = ("closure", head.split()[1] + ("|" + pm.group(1) if pm else ""), [rest])
            else:
                cur = ("hint", head[5:].strip(), [rest])
            sections.append(cur)
        else:
            if cur is None:
                if ln.strip():
                    raise ExtractError("directive text before any section: " + ln)
                continue
            cur[2].append(ln)
    out = []
    spec_text = ""
    for kind, arg, txt in sections:
        text = "\n".join(txt).rstrip()
        if kind == "spec":
            spec_text += text + "\n"
        else:
            out.append((kind, arg, text))
    return spec_text, out


def apply_seams(sections, name, texts, counts):
    """R21: declared seam substitutions (`//@ seam: "FROM" => "TO"`). Each FROM must occur exactly once in the given texts together.
    Returns (sections without the seam sections, new texts)."""
    seams = [sc for sc in sections if sc[0] == "seam"]
    rest = [sc for sc in sections if sc[0] != "seam"]
    texts = list(texts)
    for _, _, txt in seams:
        for sl in [x for x in txt.split("\n") if x.strip()]:
            ms = re.match(r'^\s*"((?:[^"\\]|\\.)*)"\s*=>(\*(\d+))?\s*"((?:[^"\\]|\\.)*)"\s*$', sl)
            if not ms:
                raise ExtractError("%s: malformed seam line: %s" % (name, sl))
            frm, to = ms.group(1).replace('\\"', '"'), ms.group(4).replace('\\"', '"')
            want = int(ms.group(3)) if ms.group(2) else 1   # `=>*N`: the text must occur exactly N times, all are replaced
            n_occ = sum(t.count(frm) for t in texts)
            if n_occ != want:
                raise ExtractError("seam text %r occurs %d times in %s (expected exactly %d)" % (frm, n_occ, name, want))
            texts = [t.replace(frm, to) for t in texts]
            counts["R21"] = counts.get("R21", 0) + 1
            counts.setdefault("R21_text", []).append([frm, to])
    return rest, texts


def expand_includes(path, depth=0):
    """textual include of other template fragments (which may contain directives themselves)"""
    if depth > 5:
        raise ExtractError("include depth")
    out = []
    for ln in open(path).read().split("\n"):
        m = re.match(r"^\s*//@include\s+(\S+)", ln)
        if m:
            out += expand_includes(os.path.join(os.path.dirname(path), m.group(1)), depth + 1)
        else:
            out.append(ln)
    return out


def process(template_path, repo, meta, twin=None, stub=()):
    tmpl = expand_includes(template_path)
    FMT_LITERALS.clear()
    out = []
    sources = {}
    i = 0
    while i < len(tmpl):
        ln = tmpl[i]
        mc = re.match(r"^\s*//@const\s+(\S+)\s*\|\s*(\w+)\s*$", ln)
        if mc:
            path = os.path.join(repo, mc.group(1))
            if path not in sources:
                if not os.path.exists(path):
                    raise ExtractError("source file missing: " + mc.group(1))
                sources[path] = Source(path)
            S = sources[path]
            hits = [x for x in re.finditer(r"^(?:pub(?:\([^)]*\))? )?const %s: [^;]*;" % mc.group(2), S.src, re.M)
                    if S.mask[x.start()]]
            if len(hits) != 1:
                raise ExtractError("const %s matched %d times" % (mc.group(2), len(hits)))
            out.append(hits[0].group(0))
            meta["items"].append({"kind": "const", "file": mc.group(1), "name": mc.group(2),
                                  "sha256": hashlib.sha256(hits[0].group(0).encode()).hexdigest()})
            i += 1
            continue
        mf = re.match(r'^\s*//@fmtlit\s+(\d+)\s+(".*")\s*$', ln)
        if mf:
            FMT_LITERALS[mf.group(2)] = int(mf.group(1))
            out.append("// format literal %s = %s" % (mf.group(1), mf.group(2)))
            i += 1
            continue
        ms = re.match(r"^\s*//@stmts\s+(.*)$", ln)
        if ms:
            # //@stmts file | container | fn | from "anchor" | to "anchor"   ... sections ... //@end
            fields = [f.strip() for f in ms.group(1).split("|")]
            rel, container, name = fields[0], fields[1], fields[2]
            lb = re.match(r'^loop (\d+) body$', fields[3])
            if not lb:
                fa = re.match(r'^from "(.*)"$', fields[3]).group(1)
                mt_ = re.match(r'^to (next )?"(.*)"$', fields[4])
                ta, ta_next = mt_.group(2), bool(mt_.group(1))
            path = os.path.join(repo, rel)
            if path not in sources:
                if not os.path.exists(path):
                    raise ExtractError("source file missing: " + rel)
                sources[path] = Source(path)
            S = sources[path]
            block = []
            i += 1
            while i < len(tmpl) and not re.match(r"^\s*//@end\s*$", tmpl[i]):
                mm = re.match(r"^\s*//@ ?(.*)$", tmpl[i])
                if not mm:
                    raise ExtractError("non-directive line inside //@stmts block: " + tmpl[i])
                block.append(mm.group(1))
                i += 1
            i += 1
            try:
                spec_text, sections = parse_block(block)
                hs, o, c = S.find_fn(container, name)
                body = S.src[o:c + 1]
                bmask = code_mask(body)
                if lb:
                    # the whole body of loop N (textual ordinal) of the function
                    lh = loop_headers(body, bmask)
                    k = int(lb.group(1))
                    if k >= len(lh):
                        raise ExtractError("%s: loop %d not found (function has %d loops)" % (name, k, len(lh)))
                    s0, e1 = lh[k][1] + 1, lh[k][2]
                    fa, ta = "loop %d body" % k, norm(body[lh[k][0]:lh[k][1]])
                else:
                    ia = [x.start() for x in re.finditer(re.escape(fa), body) if bmask[x.start()]]
                    ib = [x.start() for x in re.finditer(re.escape(ta), body) if bmask[x.start()]]
                    if len(ia) == 1 and ta_next:
                        # `to next "b"`: the first occurrence of b at or after the `from` anchor
                        ib = [x for x in ib if x >= ia[0]][:1]
                    if len(ia) != 1 or len(ib) != 1:
                        raise ExtractError("%s: statement-range anchors matched %d / %d times" % (name, len(ia), len(ib)))
                    s0, _ = stmt_bounds(body, bmask, ia[0])
                    _, e1 = stmt_bounds(body, bmask, ib[0])
                if e1 <= s0:
                    raise ExtractError("%s: empty statement range" % name)
                frag = "{" + body[s0:e1] + "}"
                counts = {"R15": 1}
                sections, (frag,) = apply_seams(sections, name, (frag,), counts)
                frag2 = apply_rewrites(frag, counts)
                # the wrapper function around this range (nearest preceding `fn` header already emitted)
                kw = len(out) - 1
                while kw >= 0 and not re.match(r"^(\s*)fn \w+", out[kw].split("\n")[0]):
                    kw -= 1
                wrapper = re.match(r"^\s*fn (\w+)", out[kw]).group(1) if kw >= 0 else None
                n_stmts = len([it for it in meta["items"] if it["kind"] == "stmts"])
                if twin is not None and twin == "stmts#%d" % n_stmts:
                    # vacuity twin of a statement-range wrapper: `assert(false)` in front of the range has to FAIL
                    sections = [("hint", "start", "assert(false);")] + sections
                frag3 = splice(frag2, sections, name)
                out.append(frag3.strip()[1:-1])
                n_clos = len(closure_headers(frag2, code_mask(frag2)))
                n_clos_spec = len([sc for sc in sections if sc[0] == "closure"])
                meta["items"].append({
                    "kind": "stmts", "file": rel, "container": container, "name": name, "emitted_as": name + "[range]",
                    "unannotated_closures": max(0, n_clos - n_clos_spec),
                    "wrapper": wrapper, "twin_key": "stmts#%d" % n_stmts,
                    "span": [o + s0, o + e1], "sha256": hashlib.sha256(body[s0:e1].encode()).hexdigest(),
                    "rewrites": counts, "from": fa, "to": ta})
            except ExtractError as e:
                # The statement range cannot be located on this tree (lost anchor). The wrapper function around it becomes a
                # contract-only stub: its obligation is UNDECIDED, the rest of the unit is still verified.
                k = len(out) - 1
                while k >= 0 and not re.match(r"^(\s*)fn \w+", out[k].split("\n")[0]):
                    k -= 1
                if k < 0:
                    raise
                mh = re.match(r"^(\s*)fn (\w+)", out[k])
                indent, wname = mh.group(1), mh.group(2)
                b = k
                while b < len(out) and out[b].rstrip() != indent + "{":
                    b += 1
                if b >= len(out):
                    raise
                del out[b + 1:]
                out.insert(k, indent + "#[verifier::external_body]")
                out.append(indent + "    unimplemented!()")
                while i < len(tmpl) and tmpl[i].rstrip() != indent + "}":
                    i += 1
                if i >= len(tmpl):
                    raise ExtractError("wrapper %s: closing brace not found" % wname)
                out.append(tmpl[i])
                i += 1
                meta["items"].append({"kind": "fn", "file": rel, "container": container, "name": name, "emitted_as": wname,
                                      "stubbed": "extraction: %s" % e, "rewrites": {"R15": 1}, "sha256": "", "span": [0, 0],
                                      "body_lines": 0})
            continue
        mfo = re.match(r"^\s*//@fieldorder\s+(.*)$", ln)
        if mfo:
            # //@fieldorder file | Struct | f1, f2 [| derive A, B]: a proof fn whose postcondition is the literal truth value of
            # "the struct declares exactly these named fields in this order (and derives these traits)". Lemmas about derived
            # impls (field-by-field comparison in declaration order) are stated over that order; if the source disagrees the
            # obligation `derive_shape_<Struct>` FAILS (a violation of the lemma's premise), it is not silently re-interpreted.
            fo = [f.strip() for f in mfo.group(1).split("|")]
            rel = fo[0]
            path = os.path.join(repo, rel)
            if path not in sources:
                if not os.path.exists(path):
                    raise ExtractError("source file missing: " + rel)
                sources[path] = Source(path)
            S = sources[path]
            hs, o, c = S.find_struct(fo[1])
            body = S.src[o:c + 1]
            bm = code_mask(body)
            body2 = strip_attrs("".join(body[k] if bm[k] else " " for k in range(len(body))))
            found = re.findall(r"(?:pub(?:\([^)]*\))?\s+)?(\w+)\s*:", body2)
            want = [x.strip() for x in fo[2].split(",") if x.strip()]
            raw = strip_noncode(S.src, S.mask, hs, o)
            okd = True
            if len(fo) > 3 and fo[3].startswith("derive"):
                for d in [x.strip() for x in fo[3][len("derive"):].split(",") if x.strip()]:
                    if not re.search(r"#\[derive\([^\]]*\b%s\b" % re.escape(d), raw):
                        okd = False
            verdict = "true" if (found == want and okd) else "false"
            out.append("/// generated by //@fieldorder: fields found in %s: %s (expected %s)%s" % (rel, ", ".join(found), ", ".join(want), "" if okd else "; a listed derive is missing"))
            out.append("proof fn derive_shape_%s() ensures %s, {}" % (fo[1], verdict))
            meta["items"].append({"kind": "fieldorder", "file": rel, "name": fo[1], "found": found, "expected": want, "span": [hs, c + 1],
                                  "sha256": hashlib.sha256(S.src[hs:c + 1].encode()).hexdigest()})
            i += 1
            continue
        m = re.match(r"^\s*//@(fn|struct)\s+(.*)$", ln)
        if not m:
            out.append(ln)
            i += 1
            continue
        fields = [f.strip() for f in m.group(2).split("|")]
        rel = fields[0]
        path = os.path.join(repo, rel)
        if path not in sources:
            if not os.path.exists(path):
                raise ExtractError("source file missing: " + rel)
            sources[path] = Source(path)
        S = sources[path]
        if m.group(1) == "struct":
            tm = [x for x in re.finditer(r"^(?:pub(?:\([^)]*\))?\s+)?struct\s+%s\s*(<[^>]*>)?\s*\(([^;]*)\);" % re.escape(fields[1]), S.src, re.M)
                  if S.mask[x.start()]]
            if len(tm) == 1:
                # tuple struct: `pub struct Name<'a>(pub T);` (visibility dropped, R11)
                x = tm[0]
                raw = S.src[max(0, S.src.rfind("\n\n", 0, x.start())):x.start()]
                keep = [d for d in ("Clone", "Copy") if re.search(r"#\[derive\([^\]]*\b%s\b" % d, raw)]
                if keep:
                    out.append("#[derive(%s)]" % ", ".join(keep))
                out.append("struct %s%s(%s);" % (fields[1], x.group(1) or "", x.group(2)))
                meta["items"].append({"kind": "struct", "file": rel, "name": fields[1], "span": [x.start(), x.end()],
                                      "sha256": hashlib.sha256(x.group(0).encode()).hexdigest()})
                i += 1
                continue
            hs, o, c = S.find_struct(fields[1])
            raw = strip_noncode(S.src, S.mask, hs, o)
            hdr = strip_attrs(raw)
            keep = [d for d in ("Clone", "Copy") if re.search(r"#\[derive\([^\]]*\b%s\b" % d, raw)]
            if keep:
                out.append("#[derive(%s)]" % ", ".join(keep))
            body = S.src[o:c + 1]
            bm = code_mask(body)
            body2 = "".join(body[k] if bm[k] else (" " if body[k] != "\n" else "\n") for k in range(len(body)))
            body2 = strip_attrs(body2)
            out.append(re.sub(r"^pub(\([^)]*\))?\s+", "", norm(hdr)) + " " + re.sub(r"\n\s*\n", "\n", body2))
            meta["items"].append({"kind": "struct", "file": rel, "name": fields[1], "span": [hs, c + 1],
                                  "sha256": hashlib.sha256(S.src[hs:c + 1].encode()).hexdigest()})
            i += 1
            continue
        # fn block
        container, name = fields[1], fields[2]
        opts = fields[3:]
        block = []
        i += 1
        while i < len(tmpl) and not re.match(r"^\s*//@end\s*$", tmpl[i]):
            mm = re.match(r"^\s*//@ ?(.*)$", tmpl[i])
            if not mm:
                raise ExtractError("%s: non-directive line inside //@fn block: %s" % (template_path, tmpl[i]))
            block.append(mm.group(1))
            i += 1
        if i >= len(tmpl):
            raise ExtractError("missing //@end for " + name)
        i += 1
        spec_text, sections = parse_block(block)
        hs, o, c = S.find_fn(container, name)
        raw_hdr = strip_noncode(S.src, S.mask, hs, o)
        sig = norm(strip_attrs(raw_hdr))
        body = S.src[o:c + 1]
        counts = {}
        sig2 = re.sub(r"^pub(\([^)]*\))?\s+", "", sig)
        if sig2 != sig:
            counts["R11"] = 1
            sig = sig2
        if norm(raw_hdr) != sig:
            counts["R3"] = 1
        new_name = name
        for op in opts:
            if op.startswith("as "):
                new_name = op[3:].strip()
                sig = re.sub(r"\bfn\s+%s\b" % re.escape(name), "fn " + new_name, sig, count=1)
                counts["R8"] = counts.get("R8", 0) + 1
            elif op.startswith("ret "):
                sig = name_return(sig, op[4:].strip())
                counts["R9"] = counts.get("R9", 0) + 1
            elif op.startswith("where "):
                # R18: a supertrait bound of the real trait that the seam trait omits is restated on the function
                if re.search(r"\bwhere\b", sig):
                    raise ExtractError("%s: signature already has a where clause" % name)
                sig = sig.rstrip() + " " + op
                counts["R18"] = counts.get("R18", 0) + 1
            elif op == "pub":
                if not sig.startswith("pub"):
                    sig = "pub " + sig
            elif op:
                raise ExtractError("unknown option %r" % op)
        if container not in ("-", "") and " for " in container:
            counts["R8"] = counts.get("R8", 0) + 1
        # R8: associated types of the surrounding trait impl (`type Item = K;`) are substituted for
        # `Self::Item` in the signature and body (the inherent impl has no associated types)
        if container not in ("-", "") and " for " in container:
            _, co, cc = S.find_container(container)
            blk = strip_noncode(S.src, S.mask, co, cc)
            for am in re.finditer(r"\btype\s+(\w+)\s*=\s*([^;]+);", blk):
                pat = r"\bSelf::%s\b" % am.group(1)
                if re.search(pat, sig) or re.search(pat, body):
                    sig = re.sub(pat, am.group(2).strip(), sig)
                    body = re.sub(pat, am.group(2).strip(), body)
                    counts["R8"] = counts.get("R8", 0) + 1
        stub_reason = None
        seam_err = None
        try:
            sections, (sig, body) = apply_seams(sections, name, (sig, body), counts)
        except ExtractError as e:
            seam_err = str(e)
        key = new_name + "@" + container
        if seam_err is not None:
            stub_reason = "extraction: " + seam_err
        elif key in stub:
            stub_reason = "the Verus front end rejects the current body of this function"
        else:
            try:
                body2 = apply_rewrites(body, counts)
                if twin is not None and twin == key:
                    # vacuity twin: the precondition must not be contradictory, so `assert(false)` has to FAIL
                    sections = [("hint", "start", "assert(false);")] + sections
                body3 = splice(body2, sections, name)
            except ExtractError as e:
                stub_reason = "extraction: %s" % e
        if stub_reason is not None:
            # The body cannot be brought under contract on this tree (lost anchor / unsupported construct). The function is
            # emitted as a contract-only stub: its own obligation is UNDECIDED, every other function of the unit is still
            # checked against this contract (modular verification: callers see the callee's contract, not its body).
            out.append("#[verifier::external_body]\n" + sig + "\n" + spec_text + "{ unimplemented!() }")
            meta["items"].append({
                "kind": "fn", "file": rel, "container": container, "name": name, "emitted_as": new_name,
                "span": [hs, c + 1], "sha256": hashlib.sha256(S.src[hs:c + 1].encode()).hexdigest(),
                "rewrites": counts, "stubbed": stub_reason, "body_lines": body.count("\n") + 1})
            continue
        out.append(sig + "\n" + spec_text + body3)
        n_clos = len(closure_headers(body2, code_mask(body2)))
        n_clos_spec = len([s for s in sections if s[0] == "closure"])
        meta["items"].append({
            "kind": "fn", "file": rel, "container": container, "name": name, "emitted_as": new_name,
            "span": [hs, c + 1], "sha256": hashlib.sha256(S.src[hs:c + 1].encode()).hexdigest(),
            "unannotated_closures": max(0, n_clos - n_clos_spec),
            "rewrites": counts, "loops_annotated": len([s for s in sections if s[0] == "loop"]),
            "hints": len([s for s in sections if s[0] == "hint"]),
            "body_lines": body.count("\n") + 1,
        })
    return "\n".join(out)


def main():
    if len(sys.argv) < 4:
        print("usage: extract.py <template> <repo> <out.rs>")
        return 2
    meta = {"items": []}
    try:
        text = process(sys.argv[1], sys.argv[2], meta)
    except ExtractError as e:
        print("EXTRACT-ERROR: %s" % e)
        return 2
    with open(sys.argv[3], "w") as f:
        f.write(text)
    for it in meta["items"]:
        if it.get("stubbed"):
            print("STUBBED (contract-only, its obligation is undecided): %s - %s" % (it.get("name"), it["stubbed"]), file=sys.stderr)
    import json
    with open(sys.argv[3] + ".meta.json", "w") as f:
        json.dump(meta, f, indent=1)
    return 0


if __name__ == "__main__":
    sys.exit(main())
