// ---- shared prelude (hand-written specification; no real code here) -------------------------------
global size_of usize == 8;

/// assumed contract of String::with_capacity (std is not verified here): the empty string
pub assume_specification[ std::string::String::with_capacity ](n: usize) -> (r: std::string::String)
    ensures r@ == Seq::<char>::empty();

/// R2: every `panic!`/`unimplemented!`/`unreachable!` of the real code becomes a call to this
/// function, whose precondition is `false`: panic freedom is an obligation, not an assumption.
#[verifier::external_body]
fn vpanic() -> !
    requires false
{ panic!() }

/// base `i` (0..32) of a packed word: lane 0 is the two most significant bits
spec fn lane(w: u64, i: int) -> u8 {
    ((w >> ((62 - 2 * i) as u64)) & 3) as u8
}

/// strings are assumed shorter than 2^62 bases (a Vec<u64> of that many words cannot exist)
spec fn max_len() -> int { 0x3fff_ffff_ffff_ffff }

/// base `i` of a packed word vector
spec fn base_at(st: Seq<u64>, i: int) -> u8 {
    lane(st[i / 32], i % 32)
}

/// reverse complement of a base sequence: position i <-> n-1-i, base b -> 3-b
spec fn rc_seq(s: Seq<u8>) -> Seq<u8> {
    Seq::new(s.len(), |i: int| (3 - s[s.len() - 1 - i]) as u8)
}

spec fn all_bases(s: Seq<u8>) -> bool {
    forall|i: int| 0 <= i < s.len() ==> #[trigger] s[i] < 4
}

proof fn lemma_set_lane(w0: u64, sh: u64, v: u64, j: u64)
    requires sh <= 62, sh % 2 == 0, j <= 62, j % 2 == 0, v < 4,
    ensures ({
        let mask = 3u64 << sh;
        let w3 = ((w0 | mask) ^ mask) | (v << sh);
        ((w3 >> j) & 3) == (if j == sh { v } else { (w0 >> j) & 3 })
    }),
{
    assert(({
        let mask = 3u64 << sh;
        let w3 = ((w0 | mask) ^ mask) | (v << sh);
        ((w3 >> j) & 3) == (if j == sh { v } else { (w0 >> j) & 3 })
    })) by (bit_vector)
        requires sh <= 62, sh % 2 == 0, j <= 62, j % 2 == 0, v < 4;
}

proof fn lemma_mask3(x: u8)
    ensures (x as u64 & 3) < 4, (x as u64 & 3) == (x & 3) as u64, (x & 3) < 4, x < 4 ==> (x & 3) == x,
{
    assert((x as u64 & 3) < 4) by (bit_vector);
    assert((x as u64 & 3) == (x & 3) as u64) by (bit_vector);
    assert((x & 3) < 4) by (bit_vector);
    assert(x < 4 ==> (x & 3) == x) by (bit_vector);
}

proof fn lemma_lane_zero(i: int)
    requires 0 <= i < 32,
    ensures lane(0, i) == 0,
{
    let sh = (62 - 2 * i) as u64;
    assert(((0u64 >> sh) & 3) == 0) by (bit_vector);
}

proof fn lemma_lane_lt4(w: u64, i: int)
    requires 0 <= i < 32,
    ensures lane(w, i) < 4,
{
    let sh = (62 - 2 * i) as u64;
    assert(((w >> sh) & 3) < 4) by (bit_vector);
}

/// shifting a word left by 2*b lanes moves lane b+j to lane j
proof fn lemma_lane_shl(w: u64, b: int, j: int)
    requires 0 <= b < 32, 0 <= j, b + j < 32,
    ensures lane(w << ((2 * b) as u64), j) == lane(w, b + j),
{
    let s = (2 * b) as u64;
    let t = (62 - 2 * j) as u64;
    let u = (62 - 2 * (b + j)) as u64;
    assert((((w << s) >> t) & 3) == ((w >> u) & 3)) by (bit_vector)
        requires s <= 62, s % 2 == 0, t <= 62, t % 2 == 0, u + s == t;
}

//@include libfns.inc

//@include exts_seam.inc

// ---- trait-level contract of the packed k-mer types (the V <-> K seam, DESIGN.md §5.2/5.3) ---------
// Verus sees only these clauses; Kani discharges each of them on the real impls of all 19 shipped types
// (harness families k_len, k_get, k_set_mut, k_set_slice_mut, k_rc, k_extend_left/right, k_empty, k_eq_ord).

trait Mer: Sized {
    spec fn mview(&self) -> Seq<u8>;
    spec fn minv(&self) -> bool;

    fn len(&self) -> (r: usize)
        requires self.minv(),
        ensures r == self.mview().len();

    fn get(&self, pos: usize) -> (r: u8)
        requires self.minv(), pos < self.mview().len(),
        ensures r == self.mview()[pos as int], r < 4;

}

/// the sequence after shifting base v in from the given side
spec fn ext_seq(s: Seq<u8>, v: u8, right: bool) -> Seq<u8> {
    if right { s.subrange(1, s.len() as int).push(v) } else { seq![v] + s.subrange(0, s.len() - 1) }
}

/// canonical form: the lexicographically smaller of a sequence and its reverse complement. Left abstract
/// here; the two facts used are proved by Kani on the real min_rc/min_rc_flip (family k_min_rc).
uninterp spec fn canon(s: Seq<u8>) -> Seq<u8>;

#[verifier::external_body]
proof fn axiom_canon(s: Seq<u8>)
    ensures canon(s) == s || canon(s) == rc_seq(s), canon(rc_seq(s)) == canon(s),
{}

// (PartialEq is part of the real trait's bounds; `==` / `!=` on k-mers is accepted by the front end and left unspecified here -
// equality of well-formed k-mers is equality of their views, Kani family k_eq_ord)
trait Kmer: Mer + Copy + std::hash::Hash + PartialEq {
    spec fn kk() -> nat;

    /// every well-formed k-mer has exactly K bases, each < 4
    proof fn lemma_kmer(&self)
        requires self.minv(),
        ensures self.mview().len() == Self::kk(), all_bases(self.mview());

    fn k() -> (r: usize)
        ensures r == Self::kk(), 2 <= r <= 64;

    // (in the real crate the next three are declared in `Mer`; they are part of the k-mer seam here because
    //  the read-only containers - DnaStringSlice, DnaSlice - implement them as `unimplemented!()`)
    fn set_mut(&mut self, pos: usize, val: u8)
        requires old(self).minv(), pos < old(self).mview().len(), val < 4,
        ensures final(self).minv(), final(self).mview() == old(self).mview().update(pos as int, val);

    fn set_slice_mut(&mut self, pos: usize, nbases: usize, value: u64)
        requires old(self).minv(), 1 <= nbases <= 32, pos + nbases <= old(self).mview().len(),
        ensures final(self).minv(), final(self).mview().len() == old(self).mview().len(),
            forall|j: int| 0 <= j < old(self).mview().len() ==> #[trigger] final(self).mview()[j]
                == (if pos <= j < pos + nbases { lane(value, j - pos) } else { old(self).mview()[j] });

    fn rc(&self) -> (r: Self)
        requires self.minv(),
        ensures r.minv(), r.mview() == rc_seq(self.mview());


    fn empty() -> (r: Self)
        ensures r.minv(), r.mview() == Seq::new(Self::kk(), |i: int| 0u8);

    fn extend_left(&self, v: u8) -> (r: Self)
        requires self.minv(), v < 4,
        ensures r.minv(), r.mview() == ext_seq(self.mview(), v, false);

    fn extend_right(&self, v: u8) -> (r: Self)
        requires self.minv(), v < 4,
        ensures r.minv(), r.mview() == ext_seq(self.mview(), v, true);

    /// default `extend` (src/lib.rs): Kani families k_extend_left / k_extend_right check `extend(v, dir)` too
    fn extend(&self, v: u8, dir: Dir) -> (r: Self)
        requires self.minv(), v < 4,
        ensures r.minv(), r.mview() == ext_seq(self.mview(), v, is_right(dir));

    /// defaults `min_rc_flip`, `min_rc`, `is_palindrome` (src/lib.rs): Kani family k_min_rc
    fn min_rc_flip(&self) -> (r: (Self, bool))
        requires self.minv(),
        ensures r.0.minv(), r.0.mview() == canon(self.mview()),
            r.1 ==> r.0.mview() == rc_seq(self.mview()), !r.1 ==> r.0.mview() == self.mview();

    fn min_rc(&self) -> (r: Self)
        requires self.minv(),
        ensures r.minv(), r.mview() == canon(self.mview());

    fn is_palindrome(&self) -> (r: bool)
        requires self.minv(),
        ensures r == (self.mview() == rc_seq(self.mview()));

    fn from_bytes(bytes: &[u8]) -> (r: Self)
        requires bytes@.len() >= Self::kk(), forall|i: int| 0 <= i < Self::kk() ==> #[trigger] bytes@[i] < 4,
        ensures r.minv(), r.mview() == bytes@.subrange(0, Self::kk() as int);

    // real default body (src/lib.rs `Kmer::to_string`): text rendering of any k-mer type (C10)
//@fn src/lib.rs | pub trait Kmer | to_string | ret r
//@ spec:
//@     requires self.minv(),
//@     ensures r@ =~= chars_of(self.mview()),
//@ loop 0:
//@     invariant self.minv(), s@.len() == pos, forall|j: int| 0 <= j < pos ==> s@[j] == char_of(self.mview()[j]),
//@end
}

// ---- R4: text sinks (model of core::fmt::Formatter as a ghost sequence of chars) ---------------------
pub mod fmt {
    use vstd::prelude::*;
    pub struct Error;
    pub type Result = core::result::Result<(), Error>;
    pub struct Formatter<'a> { pub out: Ghost<Seq<char>>, pub _p: core::marker::PhantomData<&'a ()> }

    pub trait Rendered {
        spec fn rendering(&self) -> Seq<char>;
    }
    impl Rendered for char {
        open spec fn rendering(&self) -> Seq<char> { seq![*self] }
    }
    impl Rendered for String {
        open spec fn rendering(&self) -> Seq<char> { self@ }
    }

    /// `write!(f, "{}", e)`: on success exactly the rendering of `e` was appended
    #[verifier::external_body]
    pub fn sink<T: Rendered>(f: &mut Formatter, e: T) -> (r: Result)
        ensures r.is_ok() ==> final(f).out@ == old(f).out@ + e.rendering(),
    { unimplemented!() }

    /// any other format string: output unspecified
    #[verifier::external_body]
    pub fn sink_other(f: &mut Formatter) -> (r: Result)
    { unimplemented!() }
}
